#!/usr/bin/env python3
"""round 5: confirm one sub-agent change with tools/verify_seed.sh and store it as /verif/seeded/<sid>/.
usage: tools/save_round5.py <sid> <src-dir> <what> <needs-to-manifest> [lib-test-filter]"""
import json, os, shutil, subprocess, sys
sid, src, what, needs = sys.argv[1:5]
flt = sys.argv[5:6]
p = subprocess.run(['/verif/tools/verify_seed.sh', src + '/patch.diff', src + '/demo.diff'] + flt, capture_output=True, text=True)
log = [l for l in p.stdout.split('\n') if l]
print('\n'.join(log))
if not log or 'suite-ok demo-fails-with-change demo-passes-without-change' not in log[-1]:
    print('NOT CONFIRMED', sid); sys.exit(1)
dst = f'/verif/seeded/{sid}'; os.makedirs(dst, exist_ok=True)
for f in ('patch.diff', 'demo.diff', 'notes.md'):
    if os.path.exists(f'{src}/{f}'): shutil.copy(f'{src}/{f}', f'{dst}/{f}')
prop = sid.split('-')[0]
json.dump({'id': sid, 'property': prop, 'what': what, 'needs_to_manifest': needs,
           'source': 'fresh sub-agent given only the property text and a scratch worktree (round 5)',
           'confirmed_by_me': {'command': 'tools/verify_seed.sh patch.diff demo.diff (scratch worktree of /repo HEAD under /tmp, removed afterwards)', 'log': log[:6],
                               'result': '55 existing tests pass with the change; the demonstration fails with it and passes without it'},
           'checks_run': 'tools/seed_matrix.py ' + sid + ' (change applied, ./check ' + prop + ', reverted); see detection.json',
           'caught_by': [prop], 'note': ''}, open(dst + '/meta.json', 'w'), indent=1)
print('saved', sid)
