#!/usr/bin/env python3
"""run the registered quick checks against every seeded change under /verif/seeded and record what each reports.
usage: tools/seed_matrix.py [seed-id ...]   (nothing else may use /repo meanwhile: the change is applied to its working tree)
writes seeded/<id>/detection.json"""
import json, os, subprocess, sys, re, time
V = '/verif'
ids = sys.argv[1:] or sorted(os.listdir(V + '/seeded'))
env = dict(os.environ, HV_EVIDENCE_DIR='/tmp/hv-seed-evidence', HV_REPLAY_DIR='/tmp/hv-seed-replays')
for sid in ids:
    d = f'{V}/seeded/{sid}'
    meta = json.load(open(d + '/meta.json'))
    checks = []
    for c in [meta['property']] + list(meta.get('caught_by') or []):
        if c not in checks: checks.append(c)
    assert subprocess.run(['git', '-C', '/repo', 'status', '--porcelain', '--untracked-files=no'], capture_output=True, text=True).stdout.strip() == '', '/repo is not clean'
    if subprocess.run(['git', '-C', '/repo', 'apply', d + '/patch.diff']).returncode != 0: print(sid, 'patch does not apply', flush=True); continue
    out = {}
    try:
        for c in checks:
            t = time.time()
            p = subprocess.run([V + '/check', c], cwd=V, env=env, capture_output=True, text=True)
            m = re.search(r'(\d+) obligations, (\d+) hold, (\d+) violations, (\d+) inconclusive', p.stdout)
            out[c] = {'exit': p.returncode, 'violation_lines': p.stdout.count('\nVIOLATION ') + p.stdout.startswith('VIOLATION '), 'obligations': int(m.group(1)) if m else None,
                      'violations': int(m.group(3)) if m else None, 'inconclusive': int(m.group(4)) if m else None, 'wall_s': round(time.time() - t, 1),
                      'first_what': (re.search(r'^  what: (.*)$', p.stdout, re.M) or [None, None])[1]}
            if out[c]['first_what']: out[c]['first_what'] = out[c]['first_what'][:300]
            print(sid, c, out[c]['exit'], out[c]['violations'], out[c]['inconclusive'], out[c]['wall_s'], flush=True)
    finally:
        subprocess.run(['git', '-C', '/repo', 'checkout', '--', '.']); subprocess.run(['git', '-C', '/repo', 'clean', '-fdq', '-e', 'target'])
    json.dump({'seed': sid, 'repo_head': subprocess.run(['git', '-C', '/repo', 'rev-parse', '--short', 'HEAD'], capture_output=True, text=True).stdout.strip(),
               'verif_head': subprocess.run(['git', '-C', V, 'rev-parse', '--short', 'HEAD'], capture_output=True, text=True).stdout.strip(), 'tier': 'quick', 'results': out}, open(d + '/detection.json', 'w'), indent=1)
