#!/usr/bin/env python3
"""run the registered quick checks against every seeded change under /verif/seeded and record what each reports.
usage: tools/seed_matrix.py [seed-id ...]   (nothing else may use /repo meanwhile: the change is applied to its working tree)
writes seeded/<id>/detection.json"""
import json, os, subprocess, sys, re, time
V = '/verif'
args = sys.argv[1:]
SCRATCH = None
if args and args[0] == '--scratch':
    # work on a private copy of the repository (HV_REPO) instead of /repo's working tree: may run next to other checks
    SCRATCH = args[1]; args = args[2:]
ids = args or sorted(os.listdir(V + '/seeded'))
env = dict(os.environ, HV_EVIDENCE_DIR='/tmp/hv-seed-evidence' + ('-s' if SCRATCH else ''), HV_REPLAY_DIR='/tmp/hv-seed-replays' + ('-s' if SCRATCH else ''))
if SCRATCH: env['HV_REPO'] = SCRATCH; env['HCTL_VERIF_SCRATCH'] = '/var/tmp'
def fresh_copy():
    subprocess.run(['rm', '-rf', SCRATCH]); os.makedirs(SCRATCH)
    subprocess.run(f'git -C /repo archive HEAD | tar x -C {SCRATCH} && cp /repo/Cargo.lock {SCRATCH}/', shell=True, check=True)
for sid in ids:
    d = f'{V}/seeded/{sid}'
    meta = json.load(open(d + '/meta.json'))
    checks = []
    for c in [meta['property']] + list(meta.get('caught_by') or []):
        if c not in checks: checks.append(c)
    if SCRATCH:
        fresh_copy()
        if subprocess.run(['patch', '-p1', '-s', '-d', SCRATCH, '-i', d + '/patch.diff']).returncode != 0: print(sid, 'patch does not apply', flush=True); continue
    else:
        assert subprocess.run(['git', '-C', '/repo', 'status', '--porcelain', '--untracked-files=no'], capture_output=True, text=True).stdout.strip() == '', '/repo is not clean'
        if subprocess.run(['git', '-C', '/repo', 'apply', d + '/patch.diff']).returncode != 0: print(sid, 'patch does not apply', flush=True); continue
    out = {}
    try:
        for c in checks:
            t = time.time()
            p = subprocess.run([V + '/check', c], cwd=V, env=env, capture_output=True, text=True)
            m = re.search(r'(\d+) obligations, (\d+) hold, (\d+) violations, (\d+) inconclusive', p.stdout)
            out[c] = {'exit': p.returncode, 'violation_lines': p.stdout.count('\nVIOLATION ') + p.stdout.startswith('VIOLATION '), 'obligations': int(m.group(1)) if m else None,
                      'violations': int(m.group(3)) if m else None, 'inconclusive': int(m.group(4)) if m else None, 'wall_s': round(time.time() - t, 1),
                      'first_what': (re.search(r'^  what: (.*)$', p.stdout, re.M) or [None, None])[1]}
            if out[c]['first_what']: out[c]['first_what'] = out[c]['first_what'][:300]
            print(sid, c, out[c]['exit'], out[c]['violations'], out[c]['inconclusive'], out[c]['wall_s'], flush=True)
    finally:
        if not SCRATCH: subprocess.run(['git', '-C', '/repo', 'checkout', '--', '.']); subprocess.run(['git', '-C', '/repo', 'clean', '-fdq', '-e', 'target'])
    json.dump({'seed': sid, 'repo_head': subprocess.run(['git', '-C', '/repo', 'rev-parse', '--short', 'HEAD'], capture_output=True, text=True).stdout.strip(),
               'verif_head': subprocess.run(['git', '-C', V, 'rev-parse', '--short', 'HEAD'], capture_output=True, text=True).stdout.strip(), 'tier': 'quick', 'results': out}, open(d + '/detection.json', 'w'), indent=1)
