#!/usr/bin/env python3
"""copy confirmed seeded changes from /tmp/seed-out into /verif/seeded/<id>/ with meta.json"""
import json, os, shutil, re, sys
META = {
 'C01-a': ('C01', 'fixed-point recogniser lost the check that the variable under AX is the bound one', 'two nested variables with a binder whose body is exactly AX {outer variable}; a non-steady state with one successor', ['C12', 'C01']),
 'C01-b': ('C01', 'duplicate marking relaxed to <= 2 variables; the cache-hit renaming is only sound for one', 'two same-height sub-formulas with two variables equal up to a swap', ['C01', 'C04']),
 'C02-a': ('C02', 'cache-bypass guard moved to the read side only: results computed in a foreign restricted scope are saved', 'duplicate non-terminal sub-formula first inside Q{x} in %d% (x not free in it), later outside', ['C02', 'C04']),
 'C02-b': ('C02', 'steady-state shortcut returns the unrestricted set again (revert of fix 592e1bd in disguise)', 'the pattern used unmasked inside a restricted scope', ['C02', 'C12']),
 'C04-a': ('C04', 'foreign-scope flag assigned instead of accumulated: only the last non-occurring in-scope variable decides', 'restricted outer + unrestricted inner quantifier, duplicate mentioning neither, evaluated inside first', ['C04']),
 'C04-b': ('C04', 'duplicates allowed with one free plus bound variables; cached renaming chains depend on HashMap order', 'sub-formula with a free and a bound variable occurring at two quantifier depths; ~half of the hash orders', ['C04']),
 'C05-a': ('C05', '\\forall passes top_level instead of parse_wild_cards as the "domains allowed" flag', 'long spelling \\forall with a domain, plain parser at top level or extended parser inside parentheses', ['C05']),
 'C05-b': ('C05', 'parse_8_unary rejects only atoms before a unary operator again (revert of fix 3d1ef09)', 'parenthesised group directly before a unary operator', ['C05']),
 'C06-a': ('C06', 'mk_binary height = max(left, right + 1)', 'left operand strictly deeper than the right', ['C06']),
 'C06-b': ('C06', 'parser no longer recognises the spelling False', 'print then re-parse a tree with the constant false; structural comparison', ['C06']),
 'C07-a': ('C07', 'shared rename map; forall variable not removed at scope exit', 'forall in the left operand of a binary operator whose right operand uses variables', ['C07']),
 'C07-b': ('C07', 're-quantification accepted when the name equals the canonical name', 'inner quantifier at depth >= 2 whose variable is literally x repeated depth times', ['C07']),
 'C09-a': ('C09', 'free variables named var{map.len()} instead of var{stack_len}', 'sibling binders with the same name before a free occurrence', ['C09']),
 'C09-b': ('C09', 'forall does not record its domain in mark_duplicates (ported onto the repaired tree)', 'V{x} in %d% without a jump, body duplicated under another domain', ['C09']),
 'C10-a': ('C10', 'closed sub-formulas exempt from the cache bypass', 'closed duplicate first inside a restricted scope, later outside', ['C10', 'C04']),
 'C10-b': ('C10', 'restricted wild-card set written back into the cache', 'wild-card used first inside a restricted scope and later outside', ['C10', 'C04']),
 'C11-a': ('C11', 'eval_eg compares approx_cardinality (f64) instead of the sets', 'a set with more than 2^53 elements shrinking by less than one ulp (60-variable network)', []),
 'C11-b': ('C11', 'eval_eu_saturated returns empty when phi1 is empty', 'empty left operand with non-empty right operand', ['C11', 'C01']),
 'C12-a': ('C12', 'attractor pattern exempt from the cache bypass', 'pattern occurring twice, first inside a restricted scope that cuts the attractor set', ['C12']),
 'C12-b': ('C12', 'recognisers accept truncated operator chains (!{x}: AG {x}, !{x}: {x})', 'one of these unusual binder formulas on a network whose attractors differ', ['C12']),
 'C14-a': ('C14', 'plain entry points check spare variable sets before renaming (counts names, not depth)', 'different names in sibling scopes and exactly depth spare sets, plain entry point', ['C14']),
 'C14-b': ('C14', 'validate_and_divide_wild_cards returns early on an empty context map', 'extended formula with a wild-card or domain and a completely empty context', ['C14']),
 'C15-a': ('C15', 'sanitiser maps the whole unit set to the constant true', 'constrained regulations and a formula whose result is the entire unit set', ['C15', 'C03']),
 'C15-b': ('C15', 'variable-free formulas are evaluated on a fresh graph (caller restrictions of the unit set are dropped)', 'a graph whose unit set was restricted by the caller (graph.restrict / custom unit)', []),
 'C03-a': ('C03', 'eval_equiv computed with a raw BDD iff', 'constrained parametrisations and <=> in a positive, unmasked position', ['C03', 'C15']),
 'C03-b': ('C03', 'De Morgan slip in the foreign-scope test (all instead of any)', 'two nested restricted quantifiers, duplicate mentioning only the outer variable, inner occurrence first', ['C04', 'C03']),
 'C08-a': ('C08', 'renaming by plain substitution on the way back up: an outer variable named like a deeper internal name is captured', 'nested quantifiers with an outer variable literally called x^k for an inner depth k', ['C08', 'C07']),
 'C08-b': ('C08', 'split point of binary temporal operators searched by operator kind (EU, AU, EW, AW) instead of position', 'unparenthesised chain of two different binary temporal operators in the "wrong" order', ['C08', 'C05']),
 'C13-a': ('C13', 'EW evaluated with the empty set instead of the steady states', 'a steady state where phi & ~psi holds', ['C13']),
 'C13-b': ('C13', 'eval_aw shortcut: psi subset of phi => AG phi', 'non-empty psi that is a subset of phi', ['C13']),
 'C18-a': ('C18', 'fixed-point shortcut also matches !{x}: AG {x}; the unsafe variant passes an empty steady-state set', 'exactly that shape on a network with a steady state', ['C18']),
 'C18-b': ('C18', 'unsafe_ex parses without validate_props_and_rename_vars: user-given names of equal length alias', 'two same-length variable names in scope at once', ['C18']),
 'C20-a': ('C20', 'fixed-point loops of eval_eg / eval_au compare approx_cardinality', 'more than 53 symbolic variables and a tail of the iteration changing few pairs', []),
 'C20-b': ('C20', 'forall negation relative to the restricted universe', 'V{x} in %d% with a domain that is empty for some colours only', ['C20', 'C02']),
 'C01-c': ('C01', 'steady states computed only if a self-loop-sensitive operator is exposed (not below EF/AG/EU)', 'self-loop-sensitive operator only below a saturation operator, network with a steady state', ['C01'], '/tmp/seed-out2/C01/a'),
 'C01-d': ('C01', 'cache hit writes the un-renamed set back under the new renaming', 'one-variable sub-formula occurring three times with names n0, n1 != n0, n2 != n0', ['C04'], '/tmp/seed-out2/C01/b'),
 'C02-c': ('C02', 'restricted-unit-empty case delegated to eval_hybrid_quantifier(graph, graph, ..): forall over an empty range becomes false', 'nested domains non-empty for disjoint colours, inner forall', ['C02'], '/tmp/seed-out2/C02/a'),
 'C02-d': ('C02', 'memo of compute_valid_domain_for_var keyed by (label, variable) only', 'same label and variable name used twice under different enclosing restricted scopes', ['C02'], '/tmp/seed-out2/C02/b'),
 'C04-c': ('C04', 'cache bookkeeping moved to a helper that evicts wild-card sets again', 'duplicate containing a wild-card with one occurrence in a foreign restricted scope', ['C04'], '/tmp/seed-out2/C04/a'),
 'C04-d': ('C04', 'jump handled by the generic hybrid arm: free_var_domains of its variable is overwritten and removed', 'jump inside a restricted quantifier of the same variable, duplicate below / after it', ['C04'], '/tmp/seed-out2/C04/b'),
 'C05-c': ('C05', 'E/A operator look-ahead uses is_alphanumeric (underscore lost)', 'identifier starting with EX/AG/.. followed by an underscore', ['C05'], '/tmp/seed-out2/C05/a'),
 'C05-d': ('C05', 'left operand of & parsed with parse_8_unary', 'unparenthesised binary temporal operator in the left operand of &', ['C05'], '/tmp/seed-out2/C05/b'),
 'C09-c': ('C09', 'quantifier arm increments the counter only for names new to the map', 'sibling quantifiers followed by a later new variable', ['C09'], '/tmp/seed-out2/C09/a'),
 'C09-d': ('C09', 'Display of BinaryOp::AW prints EW', 'both weak-until operators on renaming-equal operands', ['C06', 'C09', 'C13'], '/tmp/seed-out2/C09/b'),
 'C14-c': ('C14', '\\forall passes literal true as the domains-allowed flag', 'plain entry point, long spelling \\forall with a domain', ['C05', 'C14'], '/tmp/seed-out2/C14/a'),
 'C14-d': ('C14', 'check_hctl_var_support compares with the total number of extra BDD variables', 'network with >= 2 variables and k < depth <= n*k', ['C14'], '/tmp/seed-out2/C14/b'),
 'C03-c': ('C03', 'cache-hit return intersects with the unit set only inside foreign restricted scopes', 'extended entry point, constrained regulations, caller-supplied wild-card set not confined to the unit set, used outside restricted scopes in a non-laundering position', ['C03'], '/tmp/seed-out2/C03/a'),
 'C03-d': ('C03', 'jump merged into the generic hybrid arm: overwrites and removes the domain entry of its variable', 'jump inside a restricted quantifier of the same variable with a duplicate evaluated afterwards', ['C03', 'C04'], '/tmp/seed-out2/C03/b'),
 'C06-c': ('C06', 'parser cancels a negation applied directly to a negation', 'constructor-built tree with a Not node whose child is a Not node', ['C06', 'C05'], '/tmp/seed-out2/C06/a'),
 'C06-d': ('C06', 'mk_hybrid renders the domain only for bind / exists (forall forgotten)', 'forall with a domain', ['C06'], '/tmp/seed-out2/C06/b'),
 'C07-c': ('C07', 'proposition check looks the name up in the whole BDD variable set', 'context with >= 1 auxiliary variable set and a proposition spelled <var>_extra_<i>', ['C07'], '/tmp/seed-out2/C07/a'),
 'C07-d': ('C07', 'memoisation of closed sub-formulas keyed by text only (nesting depth ignored)', 'textually identical closed sub-formula with a quantifier at two different nesting depths', ['C07'], '/tmp/seed-out2/C07/b'),
 'C08-c': ('C08', 'tokenizer refactoring: \\forall passes None instead of its domain', 'extended entry point, long spelling of forall with a domain that matters', ['C08', 'C05'], '/tmp/seed-out2/C08/a'),
 'C08-d': ('C08', 'plain entry points run the variable-support check on the un-renamed tree', 'sibling quantifiers with different names and exactly depth-many variable sets, plain string API', ['C08', 'C15'], '/tmp/seed-out2/C08/b'),
 'C10-c': ('C10', 'wild-card sets evicted from the cache when the duplicate counter runs out outside restricted scopes', 'one wild-card at >= 4 places: two below the same operator inside a foreign restricted scope, two more afterwards outside', ['C10', 'C04'], '/tmp/seed-out2/C10/a'),
 'C10-d': ('C10', 'duplicate marking counts only free variables; cached two-entry renamings applied in hash order', 'one-free-variable sub-formula containing a bound variable at two depths one level apart; about half of the hash orders', ['C10', 'C04'], '/tmp/seed-out2/C10/b'),
 'C11-c': ('C11', 'eval_eu_saturated pre-filters the variables by var_can_post_within(v, phi1) over all colours', 'T not inside S and a variable without a transition inside S in any colour (~a EU a on a one-way network)', ['C11', 'C01'], '/tmp/seed-out2/C11/a'),
 'C11-d': ('C11', 'steady states computed lazily; the operator list forgets EW', 'EW without any other EX-based operator in the same call, steady state in S \\ T', ['C11', 'C13', 'C01'], '/tmp/seed-out2/C11/b'),
 'C12-c': ('C12', 'attractor shortcut seeded with the pre-computed steady states', 'attractor pattern inside a restricted scope that excludes a steady state', ['C12', 'C02'], '/tmp/seed-out2/C12/a'),
 'C12-d': ('C12', 'steady-state shortcut restricted by intersect_vertices (vertex projection) instead of the unit set', 'fixed-point pattern inside a restricted scope whose domain differs between colours', ['C12', 'C02'], '/tmp/seed-out2/C12/b'),
 'C13-c': ('C13', 'eval_ew passes phi1 instead of not_phi2 as the path constraint of the inner AU', 'a state satisfying both operands all of whose paths run through phi into ~phi & ~psi', ['C13', 'C01'], '/tmp/seed-out2/C13/a'),
 'C13-d': ('C13', 'eval_aw rewritten as A[phi U psi] | AG phi', 'branching state: one path stays in phi forever, another reaches psi and leaves phi (3 variables, or p AW ~p)', ['C13', 'C01'], '/tmp/seed-out2/C13/b'),
 'C15-c': ('C15', 'parse_and_validate checks variable support before renaming (counts names)', 'more distinct names than nesting depth and exactly depth-many variable sets, plain string API', ['C15', 'C08'], '/tmp/seed-out2/C15/a'),
 'C15-d': ('C15', 'check_hctl_var_support via extra_state_variables_by_offset(n.saturating_sub(1))', 'variable-free formula on a graph without spare variable sets', ['C15', 'C01'], '/tmp/seed-out2/C15/b'),
 'C18-c': ('C18', 'attractor search starts from can_post(reduced); single-state attractors added back from steady_states', 'attractor pattern through the self-loop-free variant (empty steady-state set) on a network with a steady state', ['C18'], '/tmp/seed-out2/C18/a'),
 'C18-d': ('C18', 'eval_aw rewritten as AU | AG using the steady states', 'AW with a steady state in phi1 & ~phi2 and a branching phi1 state that reaches both it and phi2', ['C18', 'C13'], '/tmp/seed-out2/C18/b'),
 'C19-c': ('C19', 'negation directly on an uninterpreted function dropped ("a negated free function is a free function")', 'the same symbol with both polarities in one update function', ['C19'], '/tmp/seed-out2/C19/a'),
 'C19-d': ('C19', 'explosion of an uninterpreted function memoised by symbol only (arguments not in the key)', 'one update function applying the same symbol to two different argument lists', ['C19'], '/tmp/seed-out2/C19/b'),
 'C20-c': ('C20', 'eval_eu_saturated pre-filters the variables by var_can_pre(v, phi1) over all colours', 'a variable that moves one way only in the instantiated network while another colour keeps it alive in the parametrised one', ['C20', 'C01'], '/tmp/seed-out2/C20/a'),
 'C20-d': ('C20', 'empty-child shortcut for hybrid quantifiers', 'forall with a domain that is empty for some colours only and a child that is empty', ['C20', 'C02'], '/tmp/seed-out2/C20/b'),
 'C19-a': ('C19', 'argument order lost through collect_arguments (ported)', 'same symbol applied with swapped or compound arguments', ['C19']),
 'C19-b': ('C19', 'zero-arity parameters kept as they are; synthetic constants collide with them (ported)', 'user parameter named like a synthetic constant', ['C19']),
}
NOTE = {'C20-a': 'NOT detected: same mechanism as C11-a (f64 cardinality), needs more than 53 symbolic variables; outside every bound of this framework.',
        'C11-a': 'NOT detected: manifests only for sets with more than 2^53 elements; every check here is bounded to n <= 3 network variables (stated in DESIGN.md 9). With the cardinality modelled exactly the bounded obligations hold, which is the honest answer inside the bound.',
        'C15-b': 'NOT detected: manifests only on graphs whose unit set was restricted by the caller; the property quantifies over graphs built for the network with k spare variable sets, which is what the checks build. Recorded as outside the instances explored.'}
log = open('/tmp/verify_all.log').read() if os.path.exists('/tmp/verify_all.log') else ''
log += open('/tmp/verify_b3.log').read() if os.path.exists('/tmp/verify_b3.log') else ''
log += open('/tmp/verify_b4.log').read() if os.path.exists('/tmp/verify_b4.log') else ''
for _l in ('/tmp/verify_r2.log', '/tmp/verify_r2b.log', '/tmp/verify_r2c.log'):
    log += open(_l).read() if os.path.exists(_l) else ''
for sid, entry in META.items():
    prop, what, needs, caught = entry[:4]
    p, v = sid.split('-')
    src = entry[4] if len(entry) > 4 else f'/tmp/seed-out/{p}/{v}'
    tag = ('R2 ' + '/'.join(src.split('/')[-2:])) if len(entry) > 4 else p + '/' + v
    if not os.path.isdir(src): print('missing', sid); continue
    m = re.search(r'#### ' + re.escape(tag) + r'\n(.*?)RESULT ([^\n]*)', log, re.S)
    if not m or 'suite-ok demo-fails-with-change demo-passes-without-change' not in m.group(2): print('not verified yet:', sid); continue
    dst = f'/verif/seeded/{sid}'; os.makedirs(dst, exist_ok=True)
    ported = os.path.exists(src + '/patch_ported.diff')
    shutil.copy(src + ('/patch_ported.diff' if ported else '/patch.diff'), dst + '/patch.diff')
    if ported: shutil.copy(src + '/patch.diff', dst + '/patch_original_tree.diff')
    shutil.copy(src + '/demo.diff', dst + '/demo.diff')
    if os.path.exists(src + '/notes.md'): shutil.copy(src + '/notes.md', dst + '/notes.md')
    meta = {'id': sid, 'property': prop, 'what': what, 'needs_to_manifest': needs,
            'source': 'fresh sub-agent given only the property text and a scratch worktree' + ('; re-applied by hand on the repaired tree because a fix: commit touched the same lines (patch_original_tree.diff is the agent\'s patch)' if ported else ''),
            'confirmed_by_me': {'command': 'tools/verify_seed.sh patch.diff demo.diff (scratch worktree of /repo HEAD under /tmp, removed afterwards)', 'log': [l for l in m.group(1).strip().split('\n') if l][:6],
                                'result': '55 existing tests pass with the change; the demonstration fails with it and passes without it'},
            'checks_run': 'tools/try_seed.sh patch.diff ' + ' '.join(caught or [prop]) + '  (git apply in /repo, ./check, git checkout -- .)',
            'caught_by': caught, 'note': NOTE.get(sid, '')}
    json.dump(meta, open(dst + '/meta.json', 'w'), indent=1)
    print('saved', sid, 'caught by', caught)
