#!/usr/bin/env python3
"""run quick checks against behaviour-preserving refactorings (must all exit 0).
usage: tools/benign_matrix.py <dir with patch.diff> <ID> [<ID> ...]   (nothing else may use /repo meanwhile)"""
import json, os, subprocess, sys, re, time
V = '/verif'
args = sys.argv[1:]; SCRATCH = None
if args[0] == '--scratch': SCRATCH = args[1]; args = args[2:]      # private copy of the repository (HV_REPO) instead of /repo's working tree
d = args[0]; checks = args[1:]
env = dict(os.environ, HV_EVIDENCE_DIR='/tmp/hv-seed-evidence-b', HV_REPLAY_DIR='/tmp/hv-seed-replays-b')
if SCRATCH:
    env['HV_REPO'] = SCRATCH
    subprocess.run(['rm', '-rf', SCRATCH]); os.makedirs(SCRATCH)
    subprocess.run(f'git -C /repo archive HEAD | tar x -C {SCRATCH} && cp /repo/Cargo.lock {SCRATCH}/', shell=True, check=True)
    if subprocess.run(['patch', '-p1', '-s', '-d', SCRATCH, '-i', d + '/patch.diff']).returncode != 0: print(d, 'patch does not apply'); sys.exit(3)
else:
    assert subprocess.run(['git', '-C', '/repo', 'status', '--porcelain', '--untracked-files=no'], capture_output=True, text=True).stdout.strip() == '', '/repo is not clean'
    if subprocess.run(['git', '-C', '/repo', 'apply', d + '/patch.diff']).returncode != 0: print(d, 'patch does not apply'); sys.exit(3)
out = {}
try:
    for c in checks:
        t = time.time()
        p = subprocess.run([V + '/check', c], cwd=V, env=env, capture_output=True, text=True)
        m = re.search(r'(\d+) obligations, (\d+) hold, (\d+) violations, (\d+) inconclusive', p.stdout)
        lines = [l[:400] for l in p.stdout.split('\n') if re.match(r'^(VIOLATION|INCONCLUSIVE|UNEXPLORED|  what)', l)][:6]
        out[c] = {'exit': p.returncode, 'summary': m.group(0) if m else p.stdout[-300:], 'lines': lines, 'wall_s': round(time.time() - t, 1)}
        print(os.path.basename(os.path.dirname(d)) + '/' + os.path.basename(d), c, 'exit', p.returncode, m.group(0) if m else '', flush=True)
        for l in lines: print('    ' + l, flush=True)
finally:
    if not SCRATCH: subprocess.run(['git', '-C', '/repo', 'checkout', '--', '.']); subprocess.run(['git', '-C', '/repo', 'clean', '-fdq', '-e', 'target'])
json.dump(out, open(d + ('/checks_rerun.json' if SCRATCH else '/checks.json'), 'w'), indent=1)
