#!/bin/sh
# usage: tools/verify_seed.sh <patch.diff> <demo.diff> <demo test filter>
# Confirms in a scratch worktree: (1) the 55 existing tests pass with the change, (2) the demo fails with it, (3) passes without it.
set -u
P="$1"; D="$2"; FILTER="${3:-demo}"
W=/tmp/vs-$$
git -C /repo worktree add -q --detach "$W" HEAD || exit 3
cp -r /repo/target "$W/target" 2>/dev/null
cd "$W" || exit 3
export CARGO_NET_OFFLINE=true
res=""
git apply "$P" || { echo "RESULT patch-does-not-apply"; git -C /repo worktree remove --force "$W"; exit 3; }
out=$(cargo test --offline --lib 2>&1 | grep -E "^test result" | head -1)
echo "suite with change: $out"
case "$out" in *"55 passed; 0 failed"*) res="suite-ok";; *) res="suite-FAIL";; esac
git apply "$D" || { echo "RESULT demo-does-not-apply"; git -C /repo worktree remove --force "$W"; exit 3; }
o2=$(cargo test --offline $FILTER 2>&1 | grep -E "^test result|panicked|error(\[|:)" | head -6)
echo "demo with change: $o2"
case "$o2" in *"failed"*|*panicked*) res="$res demo-fails-with-change";; *) res="$res demo-DOES-NOT-FAIL";; esac
git apply -R "$P"
o3=$(cargo test --offline $FILTER 2>&1 | grep -E "^test result" | grep -v " 0 passed" | head -3)
echo "demo without change: $o3"
case "$o3" in *"0 failed"*) case "$o3" in *" failed;"*[1-9]*" failed"*) res="$res demo-FAILS-without";; *) res="$res demo-passes-without-change";; esac;; *) res="$res demo-unclear-without";; esac
echo "RESULT $res"
cd /; git -C /repo worktree remove --force "$W"
