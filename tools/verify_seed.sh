#!/bin/sh
# usage: tools/verify_seed.sh <patch.diff> <demo.diff> [lib-test-filter]
# Confirms in a scratch worktree: (1) the 55 existing tests pass with the change, (2) the demo fails with it, (3) passes without it.
set -u
P="$1"; D="$2"; FILTER="${3:-}"
W=/tmp/vs-$$
git -C /repo worktree add -q --detach "$W" HEAD || exit 3
cp -r /repo/target "$W/target" 2>/dev/null
cd "$W" || exit 3
export CARGO_NET_OFFLINE=true
git apply "$P" || { echo "RESULT patch-does-not-apply"; cd /; git -C /repo worktree remove --force "$W"; exit 3; }
out=$(cargo test --offline --lib 2>&1 | grep -E "^test result:" | head -1)
echo "suite with change: $out"
case "$out" in *"55 passed; 0 failed"*) res="suite-ok";; *) res="suite-FAIL";; esac
git apply "$D" || { echo "RESULT demo-does-not-apply"; cd /; git -C /repo worktree remove --force "$W"; exit 3; }
T=$(grep -E '^\+\+\+ b/tests/' "$D" | sed 's#+++ b/tests/##; s#\.rs##' | head -1)
if [ -n "$T" ]; then CMD="cargo test --offline --test $T"; else CMD="cargo test --offline --lib $FILTER"; fi
echo "demo command: $CMD"
o2=$($CMD 2>&1 | grep -E "^test result:" | head -1)
echo "demo with change: $o2"
case "$o2" in *FAILED*) res="$res demo-fails-with-change";; *) res="$res demo-DOES-NOT-FAIL";; esac
git apply -R "$P"
o3=$($CMD 2>&1 | grep -E "^test result:" | head -1)
echo "demo without change: $o3"
case "$o3" in *"test result: ok"*) res="$res demo-passes-without-change";; *) res="$res demo-DOES-NOT-PASS-without";; esac
echo "RESULT $res"
cd /; git -C /repo worktree remove --force "$W"
