#!/bin/sh
# usage: tools/try_seed.sh <patch.diff> <ID> [<ID>...]   -- applies a seeded change to /repo, runs the checks, reverts
p="$1"; shift
cd /repo && git apply "$p" || { echo "patch does not apply"; exit 3; }
cd /verif
for id in "$@"; do
  echo "=== $id against $(basename $(dirname $p))/$(basename $p)"
  ./check "$id" 2>&1 | grep -E "^VIOLATION|^  what|^\[$id\]|^INCONCLUSIVE|KNOWN" | cut -c1-400 | head -12
done
git -C /repo checkout -- . ; git -C /repo clean -fdq -e target
