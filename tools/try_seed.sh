#!/bin/sh
# usage: tools/try_seed.sh <patch.diff> <ID> [<ID>...]   -- applies a seeded change to /repo, runs the checks, reverts
p="$1"; shift
cd /repo && git apply "$p" || { echo "patch does not apply"; exit 3; }
cd /verif
export HV_EVIDENCE_DIR=/tmp/hv-seed-evidence HV_REPLAY_DIR=/tmp/hv-seed-replays
for id in "$@"; do
  echo "=== $id against $(basename $(dirname $p))/$(basename $p)"
  ./check "$id" > /tmp/try_seed_$$.out 2>&1
  grep -E "^VIOLATION|^  what|KNOWN" /tmp/try_seed_$$.out | cut -c1-400 | head -6
  grep -E "^\[$id\]|^INCONCLUSIVE" /tmp/try_seed_$$.out | cut -c1-400
done
rm -f /tmp/try_seed_$$.out
git -C /repo checkout -- . ; git -C /repo clean -fdq -e target
