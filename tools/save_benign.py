#!/usr/bin/env python3
"""copy the behaviour-preserving refactorings and the results of the checks run against them into /verif/benign/"""
import json, os, shutil
AREA = {'A': 'tokenizer / parser / syntax tree', 'B': 'renaming, canonization, duplicate marking', 'C': 'eval_node and evaluation context', 'D': 'operator kernels and low-level set operations',
        'E': 'entry points, mc_utils, sanitizing', 'F': 'aeon-to-bnet converter'}
rows = []
for a in 'ABCDEF':
    for i in '123':
        src = f'/tmp/benign/{a}/{i}'
        if not os.path.exists(src + '/checks.json'): print('no result yet', a, i); continue
        dst = f'/verif/benign/{a}{i}'; os.makedirs(dst, exist_ok=True)
        for f in ('patch.diff', 'notes.md', 'checks.json'):
            if os.path.exists(f'{src}/{f}'): shutil.copy(f'{src}/{f}', f'{dst}/{f}')
        res = json.load(open(src + '/checks.json'))
        title = ''
        if os.path.exists(src + '/notes.md'):
            for l in open(src + '/notes.md'):
                if l.strip(): title = l.strip().lstrip('# ').strip(); break
        rows.append((a + i, AREA[a], title[:110], ', '.join(f"{c} exit {r['exit']}" + (' (parts unexplored)' if any('UNEXPLORED' in l for l in r['lines']) else '') for c, r in res.items())))
json.dump([{'id': r[0], 'area': r[1], 'what': r[2], 'checks': r[3]} for r in rows], open('/verif/benign/summary.json', 'w'), indent=1)
for r in rows: print('| ' + ' | '.join(r) + ' |')
