#[cfg(kani)]
mod proofs {
    use biodivine_hctl_model_checker::preprocessing::hctl_tree::*;
    use biodivine_hctl_model_checker::preprocessing::operator_enums::*;
    use biodivine_hctl_model_checker::preprocessing::parser::parse_hctl_tokens;
    use biodivine_hctl_model_checker::preprocessing::tokenizer::HctlToken;

    fn empty_fmt(_args: core::fmt::Arguments<'_>) -> String {
        String::new()
    }

    fn any_token() -> HctlToken {
        let k: u8 = kani::any();
        kani::assume(k < 5);
        match k {
            0 => HctlToken::Unary(UnaryOp::Not),
            1 => HctlToken::Binary(BinaryOp::And),
            2 => HctlToken::Binary(BinaryOp::EU),
            3 => HctlToken::Atom(Atomic::Prop(String::from("a"))),
            _ => HctlToken::Tokens(vec![HctlToken::Atom(Atomic::Prop(String::from("b")))]),
        }
    }

    fn count_nodes(t: &HctlTreeNode) -> usize {
        match &t.node_type {
            NodeType::Terminal(_) => 1,
            NodeType::Unary(_, c) => 1 + count_nodes(c),
            NodeType::Binary(_, l, r) => 1 + count_nodes(l) + count_nodes(r),
            NodeType::Hybrid(_, _, _, c) => 1 + count_nodes(c),
        }
    }

    #[kani::proof]
    #[kani::unwind(6)]
    #[kani::stub(alloc::fmt::format, empty_fmt)]
    fn parser_never_drops_tokens_len3() {
        let n: usize = kani::any();
        kani::assume(n <= 3);
        let mut toks: Vec<HctlToken> = Vec::new();
        for _ in 0..n {
            toks.push(any_token());
        }
        let r = parse_hctl_tokens(&toks);
        if let Ok(t) = r {
            // every token must be a node of the tree (a group contributes its single atom)
            assert!(count_nodes(&t) == n);
        }
    }
}
