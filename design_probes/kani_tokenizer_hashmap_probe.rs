#[cfg(kani)]
mod proofs {
    use biodivine_hctl_model_checker::preprocessing::tokenizer::*;
    use biodivine_hctl_model_checker::preprocessing::operator_enums::*;
    use biodivine_hctl_model_checker::evaluation::eval_context::EvalContext;
    use biodivine_hctl_model_checker::preprocessing::hctl_tree::*;

    fn empty_fmt(_args: core::fmt::Arguments<'_>) -> String {
        String::new()
    }

    // tokenizer: 3 symbolic ASCII bytes
    #[kani::proof]
    #[kani::unwind(6)]
    #[kani::stub(alloc::fmt::format, empty_fmt)]
    fn tokenizer_3_ascii() {
        let b: [u8; 3] = kani::any();
        kani::assume(b[0] < 128 && b[1] < 128 && b[2] < 128);
        let s = String::from_utf8(b.to_vec()).unwrap();
        let r = try_tokenize_formula(s);
        if let Ok(toks) = r {
            kani::cover!(toks.len() == 3);
            assert!(toks.len() <= 3);
        }
    }

    // concrete HashMap-heavy code: duplicates marking on a concrete small tree
    #[kani::proof]
    #[kani::unwind(20)]
    fn concrete_mark_duplicates() {
        let t = HctlTreeNode::mk_binary(
            HctlTreeNode::mk_unary(HctlTreeNode::mk_proposition("a"), UnaryOp::EX),
            HctlTreeNode::mk_unary(HctlTreeNode::mk_proposition("a"), UnaryOp::EX),
            BinaryOp::And,
        );
        let ctx = EvalContext::from_single_tree(&t);
        assert!(ctx.get_duplicates().len() == 1);
    }
}
