#!/usr/bin/env python3-vt
"""Spike: universal-instance equivalence. BDD (from the real run) vs explicit HCTL semantics, decided by z3."""
import sys, time, itertools, re
import z3

lines = open(sys.argv[1]).read().split('\n')
names = lines[0].split()[1:]
N = 2
X = {nm: z3.Bool(nm) for nm in names}

def bdd_expr(s):
    nodes = [tuple(map(int, t.split(','))) for t in s.strip().strip('|').split('|')]
    memo = {0: z3.BoolVal(False), 1: z3.BoolVal(True)}
    for i, (v, lo, hi) in enumerate(nodes):
        if i < 2: continue
        memo[i] = z3.If(X[names[v]], memo[hi], memo[lo])
    return memo[len(nodes) - 1] if len(nodes) > 1 else z3.BoolVal(False)

def fparam(i, st):  # update function of var i in state st (tuple of bools) as a z3 Bool (parameter)
    return X[f'f{i}[' + ','.join('1' if b else '0' for b in st) + ']']
def wparam(st):
    return X['w[' + ','.join('1' if b else '0' for b in st) + ']']

STATES = list(itertools.product([False, True], repeat=N))
def succs(st):
    """list of (guard, successor); plus self-loop guard when no successor"""
    out = []
    for i in range(N):
        g = z3.Xor(fparam(i, st), z3.BoolVal(st[i]))      # f_i(st) != st_i
        t = list(st); t[i] = not t[i]
        out.append((g, tuple(t)))
    stuck = z3.And([z3.Not(g) for g, _ in out])
    out.append((stuck, st))
    return out

def sem(phi, env):
    """returns dict state -> z3 Bool (for one arbitrary colour = parameter valuation)"""
    op = phi[0]
    if op == 'true': return {s: z3.BoolVal(True) for s in STATES}
    if op == 'w': return {s: wparam(s) for s in STATES}
    if op == 'var': return {s: z3.BoolVal(s == env[phi[1]]) for s in STATES}
    if op == 'prop': return {s: z3.BoolVal(s[phi[1]]) for s in STATES}
    if op == 'not': a = sem(phi[1], env); return {s: z3.Not(a[s]) for s in STATES}
    if op == 'and': a, b = sem(phi[1], env), sem(phi[2], env); return {s: z3.And(a[s], b[s]) for s in STATES}
    if op == 'or': a, b = sem(phi[1], env), sem(phi[2], env); return {s: z3.Or(a[s], b[s]) for s in STATES}
    ex = lambda a: {s: z3.Or([z3.And(g, a[t]) for g, t in succs(s)]) for s in STATES}
    ax = lambda a: {s: z3.And([z3.Implies(g, a[t]) for g, t in succs(s)]) for s in STATES}
    def fix(f, init):
        x = {s: z3.BoolVal(init) for s in STATES}
        for _ in range(len(STATES)): x = f(x)
        return x
    if op == 'EX': return ex(sem(phi[1], env))
    if op == 'AX': return ax(sem(phi[1], env))
    if op == 'EF': a = sem(phi[1], env); return fix(lambda z: {s: z3.Or(a[s], ex(z)[s]) for s in STATES}, False)
    if op == 'AF': a = sem(phi[1], env); return fix(lambda z: {s: z3.Or(a[s], ax(z)[s]) for s in STATES}, False)
    if op == 'EG': a = sem(phi[1], env); return fix(lambda z: {s: z3.And(a[s], ex(z)[s]) for s in STATES}, True)
    if op == 'AG': a = sem(phi[1], env); return fix(lambda z: {s: z3.And(a[s], ax(z)[s]) for s in STATES}, True)
    if op == 'AU':
        a, b = sem(phi[1], env), sem(phi[2], env)
        return fix(lambda z: {s: z3.Or(b[s], z3.And(a[s], ax(z)[s])) for s in STATES}, False)
    if op == 'bind': return {s: sem(phi[2], {**env, phi[1]: s})[s] for s in STATES}
    if op == 'jump': a = sem(phi[2], env); return {s: a[env[phi[1]]] for s in STATES}
    if op == 'exists':
        subs = [sem(phi[2], {**env, phi[1]: t}) for t in STATES]
        return {s: z3.Or([a[s] for a in subs]) for s in STATES}
    if op == 'forall':
        subs = [sem(phi[2], {**env, phi[1]: t}) for t in STATES]
        return {s: z3.And([a[s] for a in subs]) for s in STATES}
    raise KeyError(op)

V = lambda n: ('var', n)
F = [
 ('bind', 'x', ('exists', 'y', ('and', ('jump', 'x', ('and', ('not', V('y')), ('AX', V('x')))), ('jump', 'y', ('AX', V('y')))))),
 ('exists', 'x', ('exists', 'y', ('exists', 'z', ('and', ('jump', 'x', ('AG', ('EF', ('and', V('y'), ('w',))))), ('jump', 'y', ('EG', ('not', V('z')))))))),
 ('forall', 'x', ('AF', ('or', V('x'), ('EG', ('w',))))),
 ('bind', 'x', ('AU', ('w',), ('EX', V('x')))),
]
results = [l.split(' ', 1)[1] for l in lines if l.startswith('RESULT')]
for phi, res in zip(F, results):
    t = time.time()
    r = bdd_expr(res)
    o = sem(phi, {})
    tot = 0
    verdicts = []
    for s in STATES:
        sol = z3.Solver()
        for i in range(N): sol.add(X[f'v{i}'] == s[i])
        sol.add(r != o[s])
        verdicts.append(str(sol.check()))
    print(phi[0], verdicts, f'{time.time()-t:.2f}s')
