#!/usr/bin/env python3-vt
"""Spike: MIR -> z3 bounded symbolic execution (merge mode) for the set-algebra kernels."""
import re, sys, heapq, itertools, time
import z3

MIR = sys.argv[1] if len(sys.argv) > 1 else '/root/scratch/mir/lib.mir'

# ---------------------------------------------------------------- MIR parsing (tiny subset)
class Fn:
    def __init__(self, name, nargs):
        self.name, self.nargs, self.blocks, self.cleanup = name, nargs, {}, set()

def parse_mir(text):
    fns = {}
    cur = None; bb = None
    for line in text.split('\n'):
        m = re.match(r'^fn (.+?)\((.*)\) -> .*\{$', line)
        if m:
            name = m.group(1)
            name = re.sub(r'^hctl_operators_eval::|^low_level_operations::', '', name)
            nargs = len(re.findall(r'_\d+: ', m.group(2)))
            cur = Fn(name, nargs); fns[name] = cur; bb = None
            continue
        if cur is None: continue
        if line == '}':
            cur = None; continue
        m = re.match(r'^    (bb\d+)( \(cleanup\))?: \{$', line)
        if m:
            bb = m.group(1); cur.blocks[bb] = []
            if m.group(2): cur.cleanup.add(bb)
            continue
        if bb and line.startswith('        '):
            cur.blocks[bb].append(line.strip())
        if line == '    }': bb = None
    return fns

# ---------------------------------------------------------------- model of the library
class Model:
    """n network variables, no extra vars (k=0): a set is a BV of width W=2^n, one colour."""
    def __init__(self, n):
        self.n = n; self.W = 1 << n
        self.T = [z3.BitVec(f'T{i}', self.W) for i in range(n)]   # T[i][s]=1 iff var i can flip in s
        self.unit = z3.BitVec('unit', self.W)
    def flip(self, i, x):
        # bit s of result = bit (s xor 2^i) of x
        lo_mask = 0
        for s in range(self.W):
            if not (s >> i) & 1: lo_mask |= 1 << s
        hi_mask = ((1 << self.W) - 1) ^ lo_mask
        sh = 1 << i
        return ((x & z3.BitVecVal(lo_mask, self.W)) << sh) | z3.LShR(x & z3.BitVecVal(hi_mask, self.W), sh)
    def var_pre(self, i, x): return self.flip(i, x) & self.T[i]
    def pre(self, x):
        r = z3.BitVecVal(0, self.W)
        for i in range(self.n): r = r | self.var_pre(i, x)
        return r

class Graph: pass
GRAPH = Graph()
class Ref:
    def __init__(self, get, set_=None): self.get, self.set = get, set_
class RevVars:  # iterator state for graph.variables().rev()
    def __init__(self, lo, hi): self.lo, self.hi = lo, hi
    def __eq__(self, o): return isinstance(o, RevVars) and (self.lo, self.hi) == (o.lo, o.hi)
class Top: pass
TOP = Top()

def merge_val(g, a, b):
    """value = a if g else b"""
    if a is b: return a
    if a is TOP or b is TOP: return TOP
    if z3.is_expr(a) or z3.is_expr(b):
        if isinstance(a, bool): a = z3.BoolVal(a)
        if isinstance(b, bool): b = z3.BoolVal(b)
        if z3.is_expr(a) and z3.is_expr(b) and a.eq(b): return a
        return z3.If(g, a, b)
    if isinstance(a, (bool, int, str)) and type(a) == type(b):
        if a == b: return a
        if isinstance(a, bool): return z3.If(g, z3.BoolVal(a), z3.BoolVal(b))
        return TOP
    if isinstance(a, RevVars) and a == b: return a
    if isinstance(a, tuple) and isinstance(b, tuple) and len(a) == len(b):
        return tuple(merge_val(g, x, y) for x, y in zip(a, b))
    if isinstance(a, Ref) or isinstance(b, Ref): return TOP  # refs are re-created before use in these fns
    return TOP

class Exec:
    def __init__(self, fns, model, unwind):
        self.fns, self.m, self.unwind = fns, model, unwind
        self.side = []          # unwinding assertions: guards that must be unsat
        self.calls = 0
    # ---- operands / places
    def place_ref(self, st, p):
        p = p.strip()
        m = re.match(r'^_(\d+)$', p)
        if m:
            k = int(m.group(1))
            return Ref(lambda: st[k], lambda v: st.__setitem__(k, v))
        m = re.match(r'^\(\*_(\d+)\)$', p)
        if m:
            r = st[int(m.group(1))]; return r
        m = re.match(r'^\(\((_\d+) as Some\)\.0: .*\)$', p)
        if m:
            base = self.place_ref(st, m.group(1))
            return Ref(lambda: base.get()[1])
        raise NotImplementedError('place ' + p)
    def operand(self, st, o):
        o = o.strip()
        if o.startswith('copy ') or o.startswith('move '):
            return self.place_ref(st, o[5:]).get()
        if o.startswith('const '):
            c = o[6:]
            if c in ('true', 'false'): return c == 'true'
            if c.startswith('"'): return c
            m = re.match(r'^(-?\d+)_\w+$', c)
            if m: return int(m.group(1))
            return ('fnitem', c)
        raise NotImplementedError('operand ' + o)
    def rvalue(self, st, rv):
        rv = rv.strip()
        if rv.startswith('&mut ') : return self.place_ref(st, rv[5:])
        if rv.startswith('&'): return self.place_ref(st, rv[1:])
        m = re.match(r'^discriminant\((.+)\)$', rv)
        if m:
            v = self.place_ref(st, m.group(1)).get(); return v[0]
        if rv.startswith('(') and not rv.startswith('(*') and not rv.startswith('(('):
            inner = rv[1:-1]
            return tuple(self.operand(st, x) for x in split_args(inner))
        return self.operand(st, rv)
    # ---- library calls
    def call(self, fname, args, guard):
        m = self.m; self.calls += 1
        def deref(x): return x.get() if isinstance(x, Ref) else x
        f = fname
        loc = re.sub(r'::<.*>$', '', re.sub(r'^hctl_operators_eval::|^low_level_operations::', '', f))
        if loc in self.fns:
            return self.run(self.fns[loc], args, guard)
        if f.endswith('as Clone>::clone'): return deref(args[0])
        if 'mk_empty_colored_vertices' in f: return z3.BitVecVal(0, m.W)
        if 'mk_unit_colored_vertices' in f: return m.unit
        if f.endswith('::pre'): return m.pre(deref(args[1]))
        if f.endswith('::var_pre'): return self.var_op(m.var_pre, args[1], deref(args[2]))
        if f.endswith('as Set>::intersect'): return deref(args[0]) & deref(args[1])
        if f.endswith('as Set>::union'): return deref(args[0]) | deref(args[1])
        if f.endswith('as Set>::minus'): return deref(args[0]) & ~deref(args[1])
        if f.endswith('as Set>::is_empty'): return deref(args[0]) == 0
        if f.endswith('as PartialEq>::ne'): return deref(args[0]) != deref(args[1])
        if f.endswith('as PartialEq>::eq'): return deref(args[0]) == deref(args[1])
        if 'FnMut' in f and 'call_mut' in f: return ()
        if f.endswith('::variables'): return ('vars', 0, m.n)
        if f.endswith('as Iterator>::rev'): return RevVars(args[0][1], args[0][2])
        if f.endswith('as IntoIterator>::into_iter'): return args[0]
        if f.endswith('as Iterator>::next'):
            it = deref(args[0])
            if it.lo >= it.hi: return (0,)
            nv = RevVars(it.lo, it.hi - 1)
            args[0].set(nv)
            return (1, it.hi - 1)
        raise NotImplementedError('call ' + f)
    def var_op(self, op, var, x):
        if isinstance(var, int): return op(var, x)
        raise NotImplementedError('symbolic var id')
    # ---- function execution with merging
    def run(self, fn, args, guard):
        # CFG facts
        succ = {}
        for b, stmts in fn.blocks.items():
            if b in fn.cleanup: continue
            succ[b] = [t for t in self.targets(stmts[-1]) if t not in fn.cleanup]
        rpo, back, loops = analyse(succ)
        init = {i + 1: a for i, a in enumerate(args)}
        pq = []; cnt = itertools.count()
        pending = {}
        def push(key, bbn, ctx, st, g):
            k = (tuple(key), bbn)
            if k in pending:
                ost, og, octx = pending[k]
                ng = z3.simplify(z3.Or(g, og))
                keys = set(st) | set(ost)
                pending[k] = ({x: merge_val(g, st.get(x, TOP), ost.get(x, TOP)) for x in keys}, ng, ctx)
            else:
                pending[k] = (st, g, ctx)
                heapq.heappush(pq, (tuple(key), next(cnt), bbn))
        push([rpo['bb0']], 'bb0', (), init, guard)
        ret_val, ret_g = None, None
        while pq:
            key, _, bbn = heapq.heappop(pq)
            st, g, ctx = pending.pop((key, bbn))
            st = dict(st)
            stmts = fn.blocks[bbn]
            for s in stmts[:-1]:
                self.stmt(st, s)
            outs = self.terminator(st, stmts[-1], g)   # list of (target|None, cond, newstate)
            for tgt, cond in outs:
                ng = g if cond is True else z3.simplify(z3.And(g, cond))
                if z3.is_false(ng): continue
                if tgt == 'return':
                    v = st.get(0)
                    if ret_val is None: ret_val, ret_g = v, ng
                    else: ret_val, ret_g = merge_val(ng, v, ret_val), z3.Or(ng, ret_g)
                    continue
                if tgt == 'unreachable':
                    self.side.append(('unreachable reached in ' + fn.name, ng)); continue
                nctx = list(ctx)
                # leave loops that do not contain tgt
                while nctx and tgt not in loops[nctx[-1][0]]: nctx.pop()
                if (bbn, tgt) in back:
                    assert nctx and nctx[-1][0] == tgt
                    h, it = nctx[-1]
                    if it + 1 > self.unwind:
                        self.side.append((f'unwinding {fn.name}:{tgt} > {self.unwind}', ng)); continue
                    nctx[-1] = (h, it + 1)
                elif tgt in loops and not (nctx and nctx[-1][0] == tgt):
                    nctx.append((tgt, 0))
                nkey = []
                for h, it in nctx: nkey += [rpo[h], it]
                nkey.append(rpo[tgt])
                push(nkey, tgt, tuple(nctx), dict(st), ng)
        return ret_val
    def targets(self, term):
        return re.findall(r'\b(bb\d+)\b', term.split('->', 1)[1]) if '->' in term else []
    def stmt(self, st, s):
        if s.startswith(('StorageLive', 'StorageDead', 'nop', 'FakeRead', 'PlaceMention', 'debug ', 'scope ', 'let ')): return
        m = re.match(r'^(_\d+|\(\*_\d+\)) = (.*);$', s)
        if not m: raise NotImplementedError('stmt ' + s)
        self.place_ref(st, m.group(1)).set(self.rvalue(st, m.group(2)))
    def terminator(self, st, t, g):
        if t == 'return;': return [('return', True)]
        if t == 'unreachable;': return [('unreachable', True)]
        m = re.match(r'^goto -> (bb\d+);$', t)
        if m: return [(m.group(1), True)]
        m = re.match(r'^drop\(.*\) -> \[return: (bb\d+),.*\];$', t)
        if m: return [(m.group(1), True)]
        m = re.match(r'^switchInt\((.*)\) -> \[(.*)\];$', t)
        if m:
            v = self.operand(st, m.group(1))
            arms = [a.strip().split(': ') for a in m.group(2).split(',')]
            if isinstance(v, bool): v = int(v)
            if isinstance(v, int):
                for k, tgt in arms:
                    if k != 'otherwise' and int(k) == v: return [(tgt, True)]
                return [(dict(arms)['otherwise'], True)]
            # symbolic bool
            assert z3.is_bool(v), v
            outs = []
            for k, tgt in arms:
                if k == '0': outs.append((tgt, z3.Not(v)))
                elif k == 'otherwise' or k == '1': outs.append((tgt, v))
            return outs
        m = re.match(r'^(_\d+) = (.+) -> \[return: (bb\d+), .*\];$', t)
        if m:
            dest, callexpr, tgt = m.groups()
            depth = 0
            for idx in range(len(callexpr) - 1, -1, -1):
                ch = callexpr[idx]
                if ch == ')': depth += 1
                elif ch == '(':
                    depth -= 1
                    if depth == 0: break
            fname, argstr = callexpr[:idx], callexpr[idx + 1:-1]
            args = [self.operand(st, a) for a in split_args(argstr)] if argstr.strip() else []
            st[int(dest[1:])] = self.call(fname, args, g)
            return [(tgt, True)]
        raise NotImplementedError('term ' + t)

def split_args(s):
    out, depth, cur = [], 0, ''
    for ch in s:
        if ch in '(<[': depth += 1
        if ch in ')>]': depth -= 1
        if ch == ',' and depth == 0: out.append(cur); cur = ''
        else: cur += ch
    if cur.strip(): out.append(cur)
    return out

def analyse(succ):
    order, seen = [], set()
    onstack = set(); back = set()
    def dfs(b):
        seen.add(b); onstack.add(b)
        for t in succ.get(b, []):
            if t in onstack: back.add((b, t))
            elif t not in seen: dfs(t)
        onstack.discard(b); order.append(b)
    dfs('bb0')
    rpo = {b: i for i, b in enumerate(reversed(order))}
    pred = {}
    for b, ts in succ.items():
        for t in ts: pred.setdefault(t, []).append(b)
    loops = {}
    for (u, h) in back:
        body = loops.setdefault(h, {h})
        stack = [u]
        while stack:
            x = stack.pop()
            if x not in body:
                body.add(x); stack += pred.get(x, [])
    return rpo, back, loops

# ---------------------------------------------------------------- specs (independent explicit-state semantics)
def spec_ex(m, S, steady):
    bits = []
    for s in range(m.W):
        terms = []
        for i in range(m.n):
            t = s ^ (1 << i)
            terms.append(z3.And(z3.Extract(s, s, m.T[i]) == 1, z3.Extract(t, t, S) == 1))
        nosucc = z3.And([z3.Extract(s, s, m.T[i]) == 0 for i in range(m.n)])
        terms.append(z3.And(nosucc, z3.Extract(s, s, S) == 1))
        bits.append(z3.If(z3.Or(terms), z3.BitVecVal(1, 1), z3.BitVecVal(0, 1)))
    return z3.Concat(*reversed(bits)) if len(bits) > 1 else bits[0]

def steady_of(m):
    r = z3.BitVecVal((1 << m.W) - 1, m.W)
    for i in range(m.n): r = r & ~m.T[i]
    return r

def lfp(m, f):
    x = z3.BitVecVal(0, m.W)
    for _ in range(m.W): x = f(x)
    return x
def gfp(m, f):
    x = z3.BitVecVal((1 << m.W) - 1, m.W)
    for _ in range(m.W): x = f(x)
    return x

def check(name, solver_assertions, timeout=120000):
    s = z3.Solver(); s.set('timeout', timeout)
    for a in solver_assertions: s.add(a)
    t = time.time(); r = s.check(); dt = time.time() - t
    print(f'  {name}: {r} ({dt:.2f}s)')
    return r, (s.model() if r == z3.sat else None)

def main():
    fns = parse_mir(open(MIR).read())
    n = int(sys.argv[2]) if len(sys.argv) > 2 else 2
    m = Model(n)
    full = z3.BitVecVal((1 << m.W) - 1, m.W)
    A = z3.BitVec('A', m.W); B = z3.BitVec('B', m.W)
    steady = steady_of(m)
    # single valid colour, no extras: unit = full
    pre = [m.unit == full]
    def run(fname, args):
        ex = Exec(fns, m, unwind=m.W * n + 2)
        t = time.time(); r = ex.run(fns[fname], args, z3.BoolVal(True))
        print(f'{fname}: symbolic execution {time.time()-t:.2f}s, {ex.calls} calls, {len(ex.side)} side conditions')
        for nm, g in ex.side:
            check('side[' + nm + '] must be unsat', pre + [g])
        return r
    G = Ref(lambda: GRAPH)
    cb = Ref(lambda: ('fnitem', 'dont_track_progress'))
    rA, rB, rS = Ref(lambda: A), Ref(lambda: B), Ref(lambda: steady)
    ex_spec = lambda S: spec_ex(m, S, steady)
    neg = lambda S: ~S
    # EX
    r = run('eval_ex', [G, rA, rS]);  check('eval_ex == spec EX', pre + [r != ex_spec(A)])
    # EG
    r = run('eval_eg::<F>' if 'eval_eg::<F>' in fns else 'eval_eg', [G, rA, rS, cb])
    check('eval_eg == gfp Z. A & EX Z', pre + [r != gfp(m, lambda Z: A & ex_spec(Z))])
    # EU saturated
    r = run('eval_eu_saturated', [G, rA, rB, cb])
    eu = lfp(m, lambda Z: B | (A & ex_spec(Z)))
    check('eval_eu_saturated == lfp Z. B | (A & EX Z)', pre + [r != eu])
    # AU
    r = run('eval_au', [G, rA, rB, rS, cb])
    ax = lambda S: ~ex_spec(~S)
    au = lfp(m, lambda Z: B | (A & ax(Z)))
    check('eval_au == lfp Z. B | (A & AX Z)', pre + [r != au])
    # EW
    r = run('eval_ew', [G, rA, rB, rS, cb])
    ew = eu | gfp(m, lambda Z: A & ex_spec(Z))
    res, mdl = check('eval_ew == E[A U B] | EG A', pre + [r != ew])
    if mdl is not None:
        print('   counterexample:', {str(d): mdl[d] for d in mdl.decls()})
    r = run('eval_aw', [G, rA, rB, cb])
    aw = ~lfp(m, lambda Z: (~A & ~B) | (~B & ex_spec(Z)))
    res, mdl = check('eval_aw == ~E[~B U (~A & ~B)]', pre + [r != aw])
    if mdl is not None:
        print('   counterexample:', {str(d): mdl[d] for d in mdl.decls()})

main()
