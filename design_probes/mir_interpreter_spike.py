#!/usr/bin/env python3-vt
"""Spike: general MIR interpreter (concrete heap, symbolic scalars via z3, fork-by-re-execution).
Scope of the spike: tokenizer + parser + tree constructors (format!) of /repo.  Not the framework."""
import re, sys, os, time, itertools
sys.setrecursionlimit(20000)
import z3

# =============================================================== source facts (enums / structs / impl spans)
def load_source_facts(repo):
    enums, structs, files = {}, {}, {}
    for root, _, fs in os.walk(os.path.join(repo, 'src')):
        for f in fs:
            if f.endswith('.rs'):
                p = os.path.join(root, f); rel = os.path.relpath(p, repo)
                txt = open(p).read(); files[rel] = txt.split('\n')
                for m in re.finditer(r'\benum (\w+)\s*\{(.*?)\n\}', txt, re.S):
                    body = re.sub(r'//[^\n]*', '', m.group(2))
                    vs = []
                    depth = 0; cur = ''
                    for ch in body:
                        if ch in '(<{[': depth += 1
                        if ch in ')>}]': depth -= 1
                        if ch == ',' and depth == 0: vs.append(cur); cur = ''
                        else: cur += ch
                    vs.append(cur)
                    names = [re.match(r'\s*(\w+)', v).group(1) for v in vs if re.match(r'\s*(\w+)', v)]
                    enums[m.group(1)] = names
                for m in re.finditer(r'\bstruct (\w+)(?:<[^>]*>)?\s*\{(.*?)\n\}', txt, re.S):
                    body = re.sub(r'//[^\n]*', '', m.group(2))
                    structs[m.group(1)] = re.findall(r'(?:pub(?:\([^)]*\))? )?(\w+)\s*:', body)
    enums['Option'] = ['None', 'Some']; enums['Result'] = ['Ok', 'Err']
    enums['ControlFlow'] = ['Continue', 'Break']
    return enums, structs, files

# =============================================================== values
class Cell:
    __slots__ = ('v',)
    def __init__(self, v=None): self.v = v
class Ptr:
    """pointer = cell + path of projections into aggregates"""
    __slots__ = ('cell', 'path')
    def __init__(self, cell, path=()): self.cell, self.path = cell, tuple(path)
    def get(self):
        v = self.cell.v
        for p in self.path: v = proj_get(v, p)
        return v
    def set(self, nv):
        if not self.path: self.cell.v = nv; return
        v = self.cell.v
        for p in self.path[:-1]: v = proj_get(v, p)
        proj_set(v, self.path[-1], nv)
    def sub(self, p): return Ptr(self.cell, self.path + (p,))
class Agg:
    """struct / tuple / enum variant / array"""
    __slots__ = ('name', 'variant', 'fields')
    def __init__(self, name, variant, fields): self.name, self.variant, self.fields = name, variant, list(fields)
    def __repr__(self): return f'{self.name}#{self.variant}{self.fields}'
class RString:
    __slots__ = ('chars',)
    def __init__(self, chars): self.chars = list(chars)
    def __repr__(self): return 'S' + repr(show(self.chars))
class RStr:   # &str value
    __slots__ = ('chars',)
    def __init__(self, chars): self.chars = tuple(chars)
    def __repr__(self): return 's' + repr(show(self.chars))
class RVec:
    __slots__ = ('items',)
    def __init__(self, items=()): self.items = list(items)
    def __repr__(self): return 'V' + repr(self.items)
class Slice:  # &[T] : view on an RVec
    __slots__ = ('vec', 'lo', 'hi')
    def __init__(self, vec, lo, hi): self.vec, self.lo, self.hi = vec, lo, hi
class FnItem:
    def __init__(self, name): self.name = name
class Closure:
    def __init__(self, span, caps): self.span, self.caps = span, caps
class PeekChars:
    def __init__(self, chars): self.chars, self.pos, self.peek_cell = list(chars), 0, None
class SliceIter:
    def __init__(self, sl): self.sl, self.i = sl, 0
class VecIntoIter:
    def __init__(self, items): self.items = items
class FmtArg:
    def __init__(self, ptr, kind, ty): self.ptr, self.kind, self.ty = ptr, kind, ty
class FmtArgs:
    def __init__(self, template, args): self.template, self.args = template, args
class Formatter:
    def __init__(self): self.out = []
class Panic(Exception): pass
class Unsupported(Exception): pass

def show(chars): return ''.join(chr(c) if isinstance(c, int) else '?' for c in chars)
def proj_get(v, p):
    if isinstance(v, Cell): v = v.v  # box
    if isinstance(p, int):
        if isinstance(v, Agg): return v.fields[p]
        if isinstance(v, RVec): return v.items[p]
        raise Unsupported(f'proj {p} on {v!r}')
    raise Unsupported(f'proj {p}')
def proj_set(v, p, nv):
    if isinstance(v, Agg): v.fields[p] = nv
    elif isinstance(v, RVec): v.items[p] = nv
    else: raise Unsupported('proj_set')

def deep_clone(v):
    if isinstance(v, Agg): return Agg(v.name, v.variant, [deep_clone(x) for x in v.fields])
    if isinstance(v, RString): return RString(v.chars)
    if isinstance(v, RVec): return RVec([deep_clone(x) for x in v.items])
    if isinstance(v, Cell): return Cell(deep_clone(v.v))   # Box
    return v

# =============================================================== MIR parsing
class Fn:
    def __init__(self, name, header): self.name, self.header, self.blocks, self.cleanup, self.nargs = name, header, {}, set(), 0

def parse_mir(text):
    fns, consts = {}, {}
    cur = None; bb = None
    for line in text.split('\n'):
        if line.startswith('fn ') and line.endswith('{'):
            hdr = line[3:-1]
            i = find_args_open(hdr)
            name = hdr[:i]
            cur = Fn(name, hdr); cur.nargs = len(re.findall(r'(?:^|, |\()_\d+: ', hdr[i:]))
            fns.setdefault(name, cur) if name not in fns else None
            fns[name] = cur
            continue
        m = re.match(r'^const (.+?)::promoted\[(\d+)\]: .* = \{$', line)
        if m:
            cur = Fn(f'{m.group(1)}::promoted[{m.group(2)}]', line); consts[cur.name] = cur; continue
        if cur is None: continue
        if line == '}': cur = None; continue
        m = re.match(r'^    (bb\d+)( \(cleanup\))?: \{$', line)
        if m:
            bb = m.group(1); cur.blocks[bb] = []
            if m.group(2): cur.cleanup.add(bb)
            continue
        if line == '    }': bb = None; continue
        if bb and line.startswith('        '): cur.blocks[bb].append(line.strip())
    return fns, consts

def find_args_open(hdr):
    # first '(' at angle-depth 0 that is followed by '_1: ' or ')' -- function names may contain '(' inside <impl at ...>
    depth = 0
    for i, ch in enumerate(hdr):
        if ch == '<': depth += 1
        elif ch == '>' and hdr[i-1] != '-': depth -= 1
        elif ch == '(' and depth == 0 and (hdr[i+1:i+5] == '_1: ' or hdr[i+1] == ')'): return i
    raise ValueError(hdr)

def split_top(s, sep=','):
    out, depth, cur, i, instr = [], 0, '', 0, False
    while i < len(s):
        ch = s[i]
        if instr:
            cur += ch
            if ch == '\\': cur += s[i+1]; i += 1
            elif ch == '"': instr = False
        elif ch == '"': instr = True; cur += ch
        elif ch == "'" and i + 2 < len(s) and (s[i+2] == "'" or (s[i+1] == '\\')):
            j = s.index("'", i + 2 if s[i+1] != '\\' else i + 3); cur += s[i:j+1]; i = j
        elif ch in '([{': depth += 1; cur += ch
        elif ch in ')]}': depth -= 1; cur += ch
        elif ch == '<' and (i == 0 or s[i-1] != ' ' or True) and not (i + 1 < len(s) and s[i+1] in ' ='): depth += 1; cur += ch
        elif ch == '>' and s[i-1] not in '-=' and depth > 0 and not (s[i-1] == ' '): depth -= 1; cur += ch
        elif ch == sep and depth == 0: out.append(cur.strip()); cur = ''
        else: cur += ch
        i += 1
    if cur.strip(): out.append(cur.strip())
    return out

# =============================================================== the interpreter
class Symbolic:
    """decision oracle for fork-by-re-execution"""
    def __init__(self, prefix):
        self.prefix, self.taken, self.solver = list(prefix), [], z3.Solver()
        self.pending = []      # alternative prefixes discovered
    def ask(self, cond):
        """cond: z3 Bool. returns python bool, recording the decision"""
        cond = z3.simplify(cond)
        if z3.is_true(cond): return True
        if z3.is_false(cond): return False
        i = len(self.taken)
        if i < len(self.prefix):
            d = self.prefix[i]
        else:
            self.solver.push(); self.solver.add(cond); t_ok = self.solver.check() == z3.sat; self.solver.pop()
            self.solver.push(); self.solver.add(z3.Not(cond)); f_ok = self.solver.check() == z3.sat; self.solver.pop()
            if t_ok and f_ok:
                self.pending.append(self.taken + [False]); d = True
            else: d = t_ok
        self.taken.append(d)
        self.solver.add(cond if d else z3.Not(cond))
        return d

class Interp:
    def __init__(self, repo, mirfile):
        self.enums, self.structs, self.files = load_source_facts(repo)
        self.fns, self.consts = parse_mir(open(mirfile).read())
        self.by_last = {}
        for n, f in self.fns.items():
            self.by_last.setdefault(re.sub(r'::<.*>$', '', n).split('::')[-1] if '{closure' not in n else n, []).append(f)
        self.closures = {}
        for n, f in self.fns.items():
            m = re.search(r'\{closure@([^}]*)\}', f.header)
            if '{closure#' in n and m: self.closures[m.group(1)] = f
        self.sym = None
        self.steps = 0
        self.impl_cache = {}
    # ---------------------------------------------------------------- places
    def parse_place(self, s):
        """returns (local index, [projections]) ; projections: ('deref',) ('field',i) ('downcast',name) ('index',local)"""
        s = s.strip(); pos = 0
        def rec():
            nonlocal pos
            if s[pos] == '_':
                m = re.match(r'_(\d+)', s[pos:]); pos += m.end(); base = (int(m.group(1)), [])
            elif s.startswith('(*', pos):
                pos += 2; base = rec(); base[1].append(('deref',)); assert s[pos] == ')', s; pos += 1
            elif s[pos] == '(':
                pos += 1; base = rec()
                if s.startswith(' as ', pos):
                    j = s.index(')', pos); base[1].append(('downcast', s[pos+4:j])); pos = j + 1
                elif s[pos] == '.':
                    m = re.match(r'\.(\d+): ', s[pos:]); pos += m.end(); base[1].append(('field', int(m.group(1))))
                    depth = 0
                    while True:
                        ch = s[pos]
                        if ch in '(<[': depth += 1
                        elif ch == '>' and s[pos-1] == '-': pass
                        elif ch in ')>]':
                            if depth == 0 and ch == ')': break
                            depth -= 1
                        pos += 1
                    pos += 1
                else: raise Unsupported('place ' + s)
            else: raise Unsupported('place ' + s)
            while pos < len(s) and s[pos] == '[':
                j = s.index(']', pos); inner = s[pos+1:j]; pos = j + 1
                if inner.startswith('_'): base[1].append(('index', int(inner[1:])))
                else: base[1].append(('field', int(inner.split(' of ')[0])))
            return base
        r = rec()
        if pos != len(s): raise Unsupported('place tail ' + s)
        return r
    def place_ptr(self, fr, s):
        loc, projs = self.parse_place(s)
        p = Ptr(fr[loc])
        for pr in projs:
            if pr[0] == 'deref':
                v = p.get()
                if isinstance(v, Ptr): p = v
                elif isinstance(v, Cell): p = Ptr(v)          # Box<T>
                elif isinstance(v, (Slice, RStr)): p = Ptr(Cell(v))
                else: raise Unsupported(f'deref of {v!r} in {s}')
            elif pr[0] == 'field': p = p.sub(pr[1])
            elif pr[0] == 'downcast': pass
            elif pr[0] == 'index':
                idx = fr[pr[1]].v; base = p.get()
                if isinstance(base, Slice): p = Ptr(Cell(base.vec)).sub(base.lo + idx)
                else: p = p.sub(idx)
        return p
    # ---------------------------------------------------------------- operands / rvalues
    def const(self, c, fr_fn):
        c = c.strip()
        if c in ('true', 'false'): return c == 'true'
        if c == '()': return ()
        m = re.match(r'^(-?\d+)_(\w+)$', c)
        if m: return int(m.group(1))
        if c.startswith('"'): return RStr([ord(x) for x in unescape(c[1:-1])])
        if c.startswith('b"'): return ('bytes', unescape_bytes(c[2:-1]))
        if c.startswith("'"): return ord(unescape(c[1:-1]))
        m = re.match(r'^(.*)::promoted\[(\d+)\]$', c)
        if m:
            key = [k for k in self.consts if k.endswith(f'::promoted[{m.group(2)}]') and m.group(1).endswith(k.rsplit('::promoted', 1)[0])]
            if len(key) != 1: raise Unsupported('promoted ' + c)
            return self.run(self.consts[key[0]], [])
        return self.fn_item(c)
    def fn_item(self, c):
        return FnItem(c)
    def operand(self, fr, o, fn):
        o = o.strip()
        if o.startswith(('copy ', 'move ')):
            v = self.place_ptr(fr, o[5:]).get()
            return v
        if o.startswith('const '): return self.const(o[6:], fn)
        if o.startswith('no_retag '): return self.operand(fr, o[9:], fn)
        return self.fn_item(o)
    def rvalue(self, fr, rv, fn):
        rv = rv.strip()
        if rv.startswith('&mut '): return self.place_ptr(fr, rv[5:])
        if rv.startswith('&raw '): raise Unsupported(rv)
        if rv.startswith('&'): return self.place_ptr(fr, rv[1:])
        m = re.match(r'^discriminant\((.+)\)$', rv)
        if m:
            v = self.place_ptr(fr, m.group(1)).get()
            if not isinstance(v, Agg) or v.variant is None: raise Unsupported(f'discriminant of {v!r}')
            return v.variant
        m = re.match(r'^(Add|Sub|Mul|Eq|Ne|Lt|Le|Gt|Ge|AddWithOverflow|SubWithOverflow|BitAnd|BitOr|Rem)\((.*)\)$', rv)
        if m:
            a, b = [self.operand(fr, x, fn) for x in split_top(m.group(2))]
            return self.binop(m.group(1), a, b)
        m = re.match(r'^Not\((.*)\)$', rv)
        if m:
            a = self.operand(fr, m.group(1), fn)
            return z3.Not(a) if z3.is_expr(a) else (not a)
        m = re.match(r'^PtrMetadata\((.*)\)$', rv)
        if m:
            a = self.operand(fr, m.group(1), fn)
            if isinstance(a, Slice): return a.hi - a.lo
            if isinstance(a, RStr): return len(a.chars)
            raise Unsupported(rv)
        if rv.startswith(('copy ', 'move ', 'const ', 'no_retag ')):
            m = re.match(r'^(.*) as ([^()]*|.*) \((\w+)(\(.*\))?\)$', rv)
            if m and m.group(3) in ('IntToInt', 'PointerCoercion', 'Transmute', 'PtrToPtr'):
                v = self.operand(fr, m.group(1), fn)
                if m.group(3) == 'PointerCoercion' and 'Unsize' in (m.group(4) or ''):
                    tgt = v.get() if isinstance(v, Ptr) else v
                    if isinstance(tgt, Agg) and tgt.name == 'array': return Slice(RVec(tgt.fields), 0, len(tgt.fields))
                return v
            return self.operand(fr, rv, fn)
        if rv.startswith('[') and rv.endswith(']'):
            return Agg('array', None, [self.operand(fr, x, fn) for x in split_top(rv[1:-1])])
        if rv.startswith('(') and rv.endswith(')'):
            return Agg('tuple', None, [self.operand(fr, x, fn) for x in split_top(rv[1:-1])])
        m = re.match(r'^\{closure@([^}]*)\}(?: \{(.*)\})?$', rv)
        if m:
            caps = [self.operand(fr, x.split(': ', 1)[1], fn) for x in split_top(m.group(2))] if m.group(2) else []
            return Closure(m.group(1), caps)
        return self.aggregate(fr, rv, fn)
    def aggregate(self, fr, rv, fn):
        # Path::Variant(args) | Path::Variant | Path { f: v, .. }
        rv = strip_generics(rv)
        m = re.match(r'^([^({]+?)(?:\((.*)\)| \{(.*)\})?$', rv)
        if not m: raise Unsupported('rvalue ' + rv)
        path = m.group(1).strip()
        segs = path.split('::')
        if m.group(3) is not None:
            name = segs[-1]
            fields = {}
            for x in split_top(m.group(3)):
                k, v = x.split(': ', 1); fields[k] = self.operand(fr, v, fn)
            if name in self.structs: order = self.structs[name]
            elif name in ('Range',): order = ['start', 'end']
            elif name in ('RangeFrom',): order = ['start']
            elif name in ('RangeTo',): order = ['end']
            else: raise Unsupported('struct ' + rv)
            return Agg(name, None, [fields[k] for k in order])
        args = [self.operand(fr, x, fn) for x in split_top(m.group(2))] if m.group(2) is not None else []
        if len(segs) >= 2 and segs[-2] in self.enums and segs[-1] in self.enums[segs[-2]]:
            return Agg(segs[-2], self.enums[segs[-2]].index(segs[-1]), args)
        if len(segs) == 1:
            for en, vs in self.enums.items():
                if segs[0] in vs and en in ('Ordering',): return Agg(en, vs.index(segs[0]), args)
        raise Unsupported('aggregate ' + rv)
    def binop(self, op, a, b):
        sym = z3.is_expr(a) or z3.is_expr(b)
        if sym:
            A = a if z3.is_expr(a) else z3.BitVecVal(a, 32); B = b if z3.is_expr(b) else z3.BitVecVal(b, 32)
            if op == 'Eq': return A == B
            if op == 'Ne': return A != B
            if op == 'Lt': return z3.ULT(A, B)
            if op == 'Le': return z3.ULE(A, B)
            if op == 'Gt': return z3.UGT(A, B)
            if op == 'Ge': return z3.UGE(A, B)
            raise Unsupported('sym binop ' + op)
        if op == 'Add': return a + b
        if op == 'Sub': return a - b
        if op == 'Mul': return a * b
        if op == 'Rem': return a % b
        if op == 'AddWithOverflow': return Agg('tuple', None, [a + b, a + b >= 2**64])
        if op == 'SubWithOverflow': return Agg('tuple', None, [a - b, a - b < 0])
        return {'Eq': a == b, 'Ne': a != b, 'Lt': a < b, 'Le': a <= b, 'Gt': a > b, 'Ge': a >= b}[op]
    # ---------------------------------------------------------------- running
    def truth(self, v):
        if isinstance(v, bool): return v
        if isinstance(v, int): return v != 0
        if z3.is_expr(v): return self.sym.ask(v)
        raise Unsupported(f'truth of {v!r}')
    def run(self, fn, args):
        fr = {}
        nloc = 0
        for stmts in fn.blocks.values():
            for s in stmts:
                for m in re.finditer(r'_(\d+)', s): nloc = max(nloc, int(m.group(1)))
        nloc = max(nloc, len(args))
        for i in range(nloc + 1): fr[i] = Cell()
        for i, a in enumerate(args): fr[i + 1].v = a
        bb = 'bb0'
        while True:
            stmts = fn.blocks[bb]
            for s in stmts[:-1]: self.stmt(fr, s, fn)
            self.steps += len(stmts)
            t = stmts[-1]
            if t == 'return;': return fr[0].v
            if t == 'unreachable;': raise Panic('unreachable in ' + fn.name)
            m = re.match(r'^goto -> (bb\d+);$', t)
            if m: bb = m.group(1); continue
            m = re.match(r'^drop\(.*\) -> \[return: (bb\d+),.*\];$', t)
            if m: bb = m.group(1); continue
            m = re.match(r'^switchInt\((.*)\) -> \[(.*)\];$', t)
            if m:
                v = self.operand(fr, m.group(1), fn)
                arms = [a.strip().split(': ') for a in m.group(2).split(', ')]
                tgt = None
                if z3.is_expr(v) and z3.is_bool(v):
                    d = self.sym.ask(v); v = 1 if d else 0
                if z3.is_expr(v):
                    for k, tg in arms:
                        if k == 'otherwise': tgt = tg; break
                        if self.sym.ask(v == z3.BitVecVal(int(k), v.size())): tgt = tg; break
                else:
                    if isinstance(v, bool): v = int(v)
                    for k, tg in arms:
                        if k == 'otherwise' or int(k) == v: tgt = tg; break
                bb = tgt; continue
            m = re.match(r'^assert\((!?)(.*?), "(.*?)"(.*)\) -> \[success: (bb\d+), .*\];$', t)
            if m:
                c = self.operand(fr, m.group(2), fn)
                ok = self.truth(c)
                if m.group(1): ok = not ok
                if not ok: raise Panic('assert: ' + m.group(3))
                bb = m.group(5); continue
            m = re.match(r'^(.+?) = (.+) -> \[return: (bb\d+), .*\];$', t) or re.match(r'^(.+?) = (.+) -> (bb\d+);$', t)
            if m:
                dest, callexpr, tgt = m.groups()
                depth = 0
                for idx in range(len(callexpr) - 1, -1, -1):
                    ch = callexpr[idx]
                    if ch == ')': depth += 1
                    elif ch == '(':
                        depth -= 1
                        if depth == 0: break
                fname, argstr = callexpr[:idx], callexpr[idx + 1:-1]
                args = [self.operand(fr, a, fn) for a in split_top(argstr)]
                r = self.call(fname, args)
                self.place_ptr(fr, dest).set(r)
                bb = tgt; continue
            m = re.match(r'^(.+?) = (.+) -> unwind', t)
            if m: raise Panic('diverging call ' + t)
            raise Unsupported('terminator ' + t)
    def stmt(self, fr, s, fn):
        if s.startswith(('StorageLive', 'StorageDead', 'nop', 'FakeRead', 'PlaceMention', 'Retag', 'Deinit')): return
        m = re.match(r'^(.+?) = (.*);$', s)
        if not m: raise Unsupported('stmt ' + s)
        self.place_ptr(fr, m.group(1)).set(self.rvalue(fr, m.group(2), fn))
    # ---------------------------------------------------------------- calls
    def resolve_local(self, fname, args):
        f = strip_generics(fname)
        m = re.match(r'^<(.+) as (.+)>::(\w+)$', f)
        if m:
            ty, trait, meth = m.groups()
            ty = ty.replace('&', '').strip().split('::')[-1]
            return self.find_impl(ty, trait.split('::')[-1], meth)
        segs = f.split('::')
        last = segs[-1]
        cands = [x for x in self.by_last.get(last, [])]
        if len(segs) >= 2 and segs[-2][:1].isupper():
            ty = segs[-2]
            if ty not in self.structs and ty not in self.enums or ty in ('Option', 'Result', 'ControlFlow'): return None
            for c in cands:
                sp = self.impl_span_info(c.name)
                if sp and sp[1] == ty and sp[0] is None: return c
            return None
        cands = [c for c in cands if '<impl at' not in c.name]
        if len(cands) == 1: return cands[0]
        return None
    def impl_span_info(self, name):
        """(trait or None, type) for '<impl at file:l:c: l:c>' names, read from the source text"""
        if name in self.impl_cache: return self.impl_cache[name]
        m = re.search(r'<impl at ([^:]+):(\d+):(\d+): (\d+):(\d+)>', name)
        r = None
        if m:
            lines = self.files.get(m.group(1)); l, c = int(m.group(2)), int(m.group(3))
            txt = lines[l-1][c-1:]
            mm = re.match(r'impl(?:<[^>]*>)?\s+(?:([\w:]+)(?:<[^>]*>)?\s+for\s+)?([\w:]+)', txt)
            if mm: r = (mm.group(1).split('::')[-1] if mm.group(1) else None, mm.group(2).split('::')[-1])
            else:
                trait = re.match(r'(\w+)', txt).group(1)
                j = l
                while not re.search(r'\b(enum|struct)\s+(\w+)', lines[j-1]): j += 1
                r = (trait, re.search(r'\b(enum|struct)\s+(\w+)', lines[j-1]).group(2))
        self.impl_cache[name] = r
        return r
    def find_impl(self, ty, trait, meth):
        for c in self.by_last.get(meth, []):
            sp = self.impl_span_info(c.name)
            if sp and sp[0] == trait and sp[1] == ty: return c
        return None
    def call_value(self, f, args):
        if isinstance(f, Ptr): f = f.get()
        if isinstance(f, Closure):
            return self.run(self.closures[f.span], [Ptr(Cell(Agg('closure', None, f.caps)))] + list(args))
        if isinstance(f, FnItem): return self.call(f.name, list(args))
        raise Unsupported(f'call_value {f!r}')
    def call(self, fname, args):
        f = strip_generics(fname)
        g = lambda x: x.get() if isinstance(x, Ptr) else x
        # ----- derived / structural traits are modelled structurally
        m = re.match(r'^<(.+) as (.+)>::(\w+)$', f)
        trait, meth = (m.group(2).split('<')[0].split('::')[-1], m.group(3)) if m else (None, None)
        if trait == 'Clone' and meth == 'clone': return deep_clone(g(args[0]))
        if trait == 'PartialEq' and meth in ('eq', 'ne'):
            r = self.equal(g(args[0]), g(args[1]))
            if meth == 'ne': r = z3.Not(r) if z3.is_expr(r) else (not r)
            return r
        if trait == 'Try' and meth == 'branch':
            v = args[0]
            if v.name == 'Result':
                return Agg('ControlFlow', 0, [v.fields[0]]) if v.variant == 0 else Agg('ControlFlow', 1, [Agg('Result', 1, [v.fields[0]])])
        if trait == 'FromResidual' and meth == 'from_residual': return args[0]
        if trait == 'ToString' and meth == 'to_string':
            v = g(args[0])
            if isinstance(v, RStr): return RString(v.chars)
            if isinstance(v, int) or z3.is_expr(v): return RString([v])
            return RString(self.render(FmtArg(args[0] if isinstance(args[0], Ptr) else Ptr(Cell(v)), 'display', m.group(1))))
        if trait == 'Deref' and meth == 'deref':
            v = g(args[0])
            if isinstance(v, RString): return RStr(v.chars)
            if isinstance(v, RVec): return Slice(v, 0, len(v.items))
        if trait == 'Add' and meth == 'add':
            return RString(list(args[0].chars) + list(g(args[1]).chars))
        if trait == 'Index' and meth == 'index':
            sl, r = g(args[0]), args[1]
            if isinstance(sl, RVec): sl = Slice(sl, 0, len(sl.items))
            if isinstance(r, Agg) and r.name == 'RangeFrom':
                if r.fields[0] > sl.hi - sl.lo: raise Panic('slice index')
                return Slice(sl.vec, sl.lo + r.fields[0], sl.hi)
            if isinstance(r, Agg) and r.name == 'RangeTo':
                if r.fields[0] > sl.hi - sl.lo: raise Panic('slice index')
                return Slice(sl.vec, sl.lo, sl.lo + r.fields[0])
            if isinstance(r, int):
                if r >= sl.hi - sl.lo: raise Panic('index')
                return Ptr(Cell(sl.vec)).sub(sl.lo + r)
        if trait == 'Iterator':
            it = g(args[0])
            if meth == 'next' and isinstance(it, PeekChars):
                if it.peek_cell is not None:
                    it.peek_cell = None
                if it.pos >= len(it.chars): return Agg('Option', 0, [])
                c = it.chars[it.pos]; it.pos += 1
                return Agg('Option', 1, [c])
            if meth == 'peekable': return PeekChars(it.chars)
            if meth == 'position' and isinstance(it, SliceIter):
                sl = it.sl
                for i in range(it.i, sl.hi - sl.lo):
                    if self.truth(self.call_value(args[1], [Ptr(Cell(sl.vec)).sub(sl.lo + i)])): return Agg('Option', 1, [i])
                return Agg('Option', 0, [])
            if meth == 'collect' and isinstance(it, VecIntoIter): return RString(it.items)
        if trait == 'IntoIterator' and meth == 'into_iter':
            v = args[0]
            if isinstance(v, RVec): return VecIntoIter(v.items)
            return v
        if trait == 'FnMut' or trait == 'FnOnce' or trait == 'Fn':
            return self.call_value(args[0], args[1].fields)
        # ----- local MIR functions
        loc = self.resolve_local(fname, args)
        if loc is not None: return self.run(loc, args)
        # ----- std models
        base = re.sub(r'<[^<>]*>', '', re.sub(r'<[^<>]*>', '', re.sub(r'<[^<>]*>', '', f)))
        if base.endswith('Vec::new'): return RVec()
        if base.endswith('Vec::push'): g(args[0]).items.append(args[1]); return ()
        if base.endswith('String::new'): return RString([])
        if base.endswith('String::push'): g(args[0]).chars.append(args[1]); return ()
        if base.endswith('String::push_str'): g(args[0]).chars.extend(g(args[1]).chars); return ()
        if base.endswith('String::as_str'): return RStr(g(args[0]).chars)
        if base.endswith('String::is_empty'): return len(g(args[0]).chars) == 0
        if base.endswith('str::chars') or base.endswith('::chars'): return PeekChars(g(args[0]).chars)
        if base.endswith('Peekable::peek'):
            it = g(args[0])
            if it.pos >= len(it.chars): return Agg('Option', 0, [])
            it.peek_cell = Cell(it.chars[it.pos])
            return Agg('Option', 1, [Ptr(it.peek_cell)])
        if base.endswith('::is_whitespace'): return self.char_pred('ws', args[0])
        if base.endswith('::is_alphanumeric'): return self.char_pred('alnum', args[0])
        if base.endswith('::iter'):
            v = g(args[0])
            return SliceIter(v if isinstance(v, Slice) else Slice(v, 0, len(v.items)))
        if base.endswith('::is_empty'):
            v = g(args[0]); return (v.hi - v.lo) == 0
        if base.endswith('Box::new'): return Cell(args[0])
        if base.endswith('Option::is_some'): return g(args[0]).variant == 1
        if base.endswith('Option::is_none'): return g(args[0]).variant == 0
        if base.endswith('Option::unwrap'):
            if args[0].variant == 0: raise Panic('unwrap on None')
            return args[0].fields[0]
        if base.endswith('cmp::max'): return max(args[0], args[1])
        if base.endswith('must_use'): return args[0]
        if base.endswith('Argument::new_display'): return FmtArg(args[0], 'display', fname)
        if base.endswith('Argument::new_debug'): return FmtArg(args[0], 'debug', fname)
        if base.endswith('Arguments::new'): return FmtArgs(args[0][1], g(args[1]).fields)
        if base.endswith('Arguments::from_str') or base.endswith('Arguments::new_const'): return FmtArgs(None, [g(args[0])])
        if base == 'format' or base.endswith('fmt::format'): return RString(self.render_args(args[0]))
        if base.endswith('Formatter::write_fmt'): g(args[0]).out.extend(self.render_args(args[1])); return Agg('Result', 0, [()])
        if base.endswith('Formatter::write_str'): g(args[0]).out.extend(g(args[1]).chars); return Agg('Result', 0, [()])
        m2 = re.match(r'.*Formatter::debug_tuple_field(\d)_finish$', base)
        if m2:
            fm = g(args[0]); fm.out.extend(g(args[1]).chars); fm.out.append(ord('('))
            for i, a in enumerate(args[2:]):
                if i: fm.out.extend([ord(','), ord(' ')])
                fm.out.extend([ord('<'), ord('?'), ord('>')])
            fm.out.append(ord(')')); return Agg('Result', 0, [()])
        if base.endswith('panicking::panic') or 'panic' in base: raise Panic(str(args))
        raise Unsupported('call ' + fname)
    # ---------------------------------------------------------------- helpers
    def char_pred(self, kind, c):
        if isinstance(c, int):
            ch = chr(c); return ch.isspace() if kind == 'ws' else ch.isalnum()
        # symbolic char: ASCII exact
        ws = z3.Or([c == x for x in (9, 10, 11, 12, 13, 32)])
        al = z3.Or(z3.And(z3.UGE(c, 48), z3.ULE(c, 57)), z3.And(z3.UGE(c, 65), z3.ULE(c, 90)), z3.And(z3.UGE(c, 97), z3.ULE(c, 122)))
        return ws if kind == 'ws' else al
    def equal(self, a, b):
        if isinstance(a, Ptr): a = a.get()
        if isinstance(b, Ptr): b = b.get()
        if isinstance(a, Cell): a = a.v
        if isinstance(b, Cell): b = b.v
        if isinstance(a, (RString, RStr)) and isinstance(b, (RString, RStr)):
            if len(a.chars) != len(b.chars): return False
            conds = []
            for x, y in zip(a.chars, b.chars):
                if isinstance(x, int) and isinstance(y, int):
                    if x != y: return False
                else: conds.append((x if z3.is_expr(x) else z3.BitVecVal(x, 32)) == (y if z3.is_expr(y) else z3.BitVecVal(y, 32)))
            return z3.And(conds) if conds else True
        if isinstance(a, Agg) and isinstance(b, Agg):
            if a.variant != b.variant or len(a.fields) != len(b.fields): return False
            conds = []
            for x, y in zip(a.fields, b.fields):
                r = self.equal(x, y)
                if r is False: return False
                if r is not True: conds.append(r)
            return z3.And(conds) if conds else True
        if isinstance(a, RVec) and isinstance(b, RVec):
            return self.equal(Agg('v', None, a.items), Agg('v', None, b.items))
        if z3.is_expr(a) or z3.is_expr(b):
            return (a if z3.is_expr(a) else z3.BitVecVal(a, 32)) == (b if z3.is_expr(b) else z3.BitVecVal(b, 32))
        return a == b
    def render_args(self, fa):
        if fa.template is None: return list(fa.args[0].chars)
        out, t, i, ai = [], fa.template, 0, 0
        while t[i] != 0:
            b = t[i]
            if b == 0xC0: out.extend(self.render(fa.args[ai])); ai += 1; i += 1
            elif b < 0x80: out.extend(t[i+1:i+1+b]); i += 1 + b
            else: raise Unsupported(f'format template byte {b:#x}')
        return out
    def render(self, a):
        v = a.ptr.get() if isinstance(a.ptr, Ptr) else a.ptr
        while isinstance(v, Ptr): v = v.get()
        if isinstance(v, (RString, RStr)):
            if a.kind == 'display': return list(v.chars)
            return [ord('"')] + list(v.chars) + [ord('"')]
        if isinstance(v, int) and 'char' in a.ty: return [v]
        if z3.is_expr(v): return [v]
        if isinstance(v, int): return [ord(c) for c in str(v)]
        if isinstance(v, Agg) and v.name in self.enums or isinstance(v, Agg) and v.name in self.structs:
            impl = self.find_impl(v.name, 'Display' if a.kind == 'display' else 'Debug', 'fmt')
            if impl is None: return [ord(c) for c in f'<{v.name}>']
            fm = Formatter()
            p = a.ptr
            while isinstance(p.get(), Ptr): p = p.get()
            self.run(impl, [p, Ptr(Cell(fm))])
            return fm.out
        return [ord(c) for c in '<dbg>']

def strip_generics(s):
    # remove ::<...> turbofish groups (balanced)
    out, i = '', 0
    while i < len(s):
        if s.startswith('::<', i):
            depth, j = 0, i + 2
            while True:
                if s[j] == '<': depth += 1
                elif s[j] == '>' and s[j-1] != '-':
                    depth -= 1
                    if depth == 0: break
                j += 1
            i = j + 1
        else: out += s[i]; i += 1
    return out
def unescape(s): return bytes(s, 'utf-8').decode('unicode_escape').encode('latin-1').decode('utf-8') if '\\' in s else s
def unescape_bytes(s):
    out, i = [], 0
    while i < len(s):
        if s[i] == '\\':
            if s[i+1] == 'x': out.append(int(s[i+2:i+4], 16)); i += 4
            else: out.append({'n': 10, 't': 9, 'r': 13, '0': 0, '\\': 92, '"': 34, "'": 39}[s[i+1]]); i += 2
        else: out.append(ord(s[i])); i += 1
    return out

# =============================================================== drivers
def tree_str(v):
    return show(v.fields[0].chars)

def concrete_parse(I, s):
    I.sym = Symbolic([])
    fn = I.by_last['parse_hctl_formula'][0]
    r = I.run(fn, [RStr([ord(c) for c in s])])
    if r.variant == 0: return 'Ok(' + tree_str(r.fields[0]) + ')'
    return 'Err(' + show(r.fields[0].chars) + ')'

def explore_tokenizer(I, n):
    """all paths of try_tokenize_formula over strings of exactly n symbolic ASCII chars"""
    chars = [z3.BitVec(f'c{i}', 32) for i in range(n)]
    work, paths, t0 = [[]], 0, time.time()
    outcomes = {}
    while work:
        prefix = work.pop()
        I.sym = Symbolic(prefix)
        for c in chars: I.sym.solver.add(z3.ULT(c, 128), z3.UGE(c, 32))
        fn = I.by_last['try_tokenize_formula'][0]
        try:
            r = I.run(fn, [RString(chars)])
            kind = 'Ok' if r.variant == 0 else 'Err'
            if kind == 'Ok': kind += ':' + ' '.join(tok_kind(t) for t in r.fields[0].items)
        except Panic as e:
            kind = 'PANIC ' + str(e)
        paths += 1
        work.extend(I.sym.pending)
        assert I.sym.solver.check() == z3.sat
        mdl = I.sym.solver.model()
        wit = ''.join(chr(mdl.eval(c, model_completion=True).as_long()) for c in chars)
        outcomes.setdefault(kind.split(':')[0] if kind.startswith('Err') else kind, []).append(wit)
    dt = time.time() - t0
    print(f'n={n}: {paths} paths in {dt:.1f}s ({I.steps} MIR statements interpreted)')
    for k, v in sorted(outcomes.items(), key=lambda kv: -len(kv[1]))[:12]:
        print(f'   {len(v):5d}  {k:40s} e.g. {v[:4]}')
    return outcomes

def tok_kind(t):
    names = ['Unary', 'Binary', 'Hybrid', 'Atom', 'Tokens']
    return names[t.variant]

if __name__ == '__main__':
    I = Interp('/repo', '/root/scratch/mir/lib.mir')
    for s in ['!{x}: AG EF {x}', 'a & b | ~c EU d', '(a) ~b', '!{x}: 3{y}: (@{x}: ~{y} & AX {x}) & (@{y}: AX {y})', 'a b', '(prop1 <=> PROP2 | false => 1) AU (True ^ 0)', '~', 'p1 )', 'A* EF {x}']:
        t = time.time(); steps0 = I.steps
        try: r = concrete_parse(I, s)
        except (Unsupported, Panic) as e: r = f'{type(e).__name__}: {e}'
        print(f'{s!r:70s} -> {r}   [{time.time()-t:.3f}s, {I.steps-steps0} stmts]')
    if len(sys.argv) > 1:
        for n in range(1, int(sys.argv[1]) + 1): explore_tokenizer(I, n)
