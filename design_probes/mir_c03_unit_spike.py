import sys, os
src=open('/verif/design_probes/mir_eval_node_spike.py').read().replace("if __name__ == '__main__':","if False:")
sys.argv=['x']; exec(src)
class ModelC(Model):
    """one extra colour bit (most significant BDD variable); colour 1 is invalid"""
    def __init__(self, n, k):
        self.n, self.k = n, k
        self.m = n * (1 + k) + 1; self.W = 1 << self.m
        self.names = [f'v{i}' for i in range(n)]
        self.T = [z3.BitVec(f'T{i}', 1 << (n + 1)) for i in range(n)]       # indexed by (colour, state)
        self.full = z3.BitVecVal((1 << self.W) - 1, self.W)
        self.unit = z3.BitVecVal(sum(1 << idx for idx in range(self.W) if not (idx >> (self.m - 1)) & 1), self.W)
        self.Tfull = [self.expand_states(t) for t in self.T]
    def state_of(self, idx): return sum(((idx >> self.pos(i, 0)) & 1) << i for i in range(self.n)) | (((idx >> (self.m - 1)) & 1) << self.n)
    def expand_states(self, small):
        r = z3.BitVecVal(0, self.W)
        for s in range(1 << (self.n + 1)):
            mask = sum(1 << idx for idx in range(self.W) if self.state_of(idx) == s)
            r = r | z3.If(z3.Extract(s, s, small) == 1, z3.BitVecVal(mask, self.W), z3.BitVecVal(0, self.W))
        return r
I = Interp('/repo', '/root/scratch/mir/lib.mir')
for k, text in [(0,'v0'), (0,'~v0'), (0,'EX v0'), (0,'EF v0'), (0,'true'), (1,'!{x}: EX {x}'), (1,'!{x}: (v1 & AX {x})'), (1, '3{x}: @{x}: AG EF v0')]:
    M = ModelC(2, k); I.model = M
    work=[[]]; verdicts=[]
    while work:
        I.sym = Symbolic(work.pop())
        r = I.run(I.by_last['parse_and_minimize_hctl_formula'][0], [Ptr(Cell(CtxObj(M))), RStr([ord(c) for c in text])])
        tree = r.fields[0]
        ctx_new = [f for f in I.by_last['new'] if (I.impl_span_info(f.name) or (0, 0))[1] == 'EvalContext'][0]
        ectx = I.run(ctx_new, [RMap('HashMap')])
        res = I.run(I.by_last['eval_node'][0], [tree, Ptr(Cell(GraphObj(M))), Ptr(Cell(ectx)), Ptr(Cell(M.steady())), Ptr(Cell(FnItem('mc_utils::dont_track_progress')))])
        work.extend(I.sym.pending)
        s = z3.Solver()
        for a in I.sym.solver.assertions(): s.add(a)
        s.add((res & ~M.unit) != 0)
        verdicts.append(str(s.check()))
    print(f'C03 obligation result <= unit for {text:28s}: {sorted(set(verdicts))}  (sat = leaves the unit set)')
