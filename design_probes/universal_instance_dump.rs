use biodivine_hctl_model_checker::mc_utils::get_extended_symbolic_graph;
use biodivine_hctl_model_checker::model_checking::*;
use biodivine_lib_param_bn::BooleanNetwork;
use biodivine_lib_param_bn::symbolic_async_graph::GraphColoredVertices;
use std::collections::HashMap;

// usage: probe <n> <formula>...   prints var names, unit bdd, wild-card bdd, and result bdd per formula
fn main() {
    let args: Vec<String> = std::env::args().collect();
    let n: usize = args[1].parse().unwrap();
    let names: Vec<String> = (0..n).map(|i| format!("v{i}")).collect();
    let mut aeon = String::new();
    for t in &names { for s in &names { aeon += &format!("{s} -?? {t}\n"); } }
    let argl = names.join(", ");
    for (i, t) in names.iter().enumerate() {
        if i == 0 { aeon += &format!("${t}: f{i}({argl}) | (w({argl}) & !w({argl}))\n"); }
        else { aeon += &format!("${t}: f{i}({argl})\n"); }
    }
    let bn = BooleanNetwork::try_from(aeon.as_str()).unwrap();
    let stg = get_extended_symbolic_graph(&bn, 3).unwrap();
    let ctx = stg.symbolic_context();
    let vs = ctx.bdd_variable_set();
    println!("VARS {}", vs.variables().iter().map(|v| vs.name_of(*v)).collect::<Vec<_>>().join(" "));
    println!("UNIT {}", stg.unit_colored_vertices().as_bdd());
    let w = bn.find_parameter("w").unwrap();
    let fargs: Vec<_> = bn.variables().map(biodivine_lib_param_bn::FnUpdate::mk_var).collect();
    let wbdd = ctx.mk_uninterpreted_function_is_true(w, &fargs).and(stg.unit_colored_vertices().as_bdd());
    let c = HashMap::from([("w".to_string(), GraphColoredVertices::new(wbdd, ctx))]);
    for f in &args[2..] {
        let t = std::time::Instant::now();
        let r = model_check_extended_formula_dirty(f, &stg, &c).unwrap();
        eprintln!("{f}: {} nodes {:?}", r.as_bdd().size(), t.elapsed());
        println!("RESULT {}", r.as_bdd());
    }
}
