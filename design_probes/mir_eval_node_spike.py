#!/usr/bin/env python3-vt
"""Spike 3: the real eval_node executed from MIR (fork mode) on a bit-vector model of the biodivine libraries,
result term compared by z3 with explicit HCTL semantics, for ALL n-variable transition systems.  Not the framework."""
import sys, re, time, itertools
sys.argv = sys.argv[:1] + sys.argv[1:]
src = open('/verif/design_probes/mir_interpreter_spike.py').read().replace("if __name__ == '__main__':", "if False:")
exec(src)

# ------------------------------------------------------------------ containers
class RMap:
    """HashMap / BTreeMap / HashSet model: association list (values None for sets)"""
    def __init__(self, kind, items=()): self.kind, self.items = kind, [list(x) for x in items]
    def __repr__(self): return f'{self.kind}{self.items!r}'

def keystr(v):
    if isinstance(v, Ptr): v = v.get()
    if isinstance(v, (RString, RStr)): return ('s', tuple(v.chars))
    if isinstance(v, Agg): return ('a', v.name, v.variant, tuple(keystr(x) for x in v.fields))
    if isinstance(v, RMap): return ('m', tuple(sorted((keystr(k), keystr(x) if x is not None else None) for k, x in v.items)))
    if isinstance(v, (int, bool)) or v is None: return ('i', v)
    raise Unsupported(f'key {v!r}')

_deep_clone0 = deep_clone
def deep_clone(v):
    if isinstance(v, RMap): return RMap(v.kind, [[deep_clone(k), deep_clone(x)] for k, x in v.items])
    return _deep_clone0(v)
globals()['deep_clone'] = deep_clone
Interp_equal0 = Interp.equal
def equal2(self, a, b):
    if isinstance(a, Ptr): a = a.get()
    if isinstance(b, Ptr): b = b.get()
    if isinstance(a, RMap) and isinstance(b, RMap): return keystr(a) == keystr(b)
    return Interp_equal0(self, a, b)
Interp.equal = equal2

# ------------------------------------------------------------------ the library model
class Model:
    def __init__(self, n, k):
        self.n, self.k = n, k
        self.m = n * (1 + k); self.W = 1 << self.m
        self.names = [f'v{i}' for i in range(n)]
        self.T = [z3.BitVec(f'T{i}', 1 << n) for i in range(n)]
        self.full = z3.BitVecVal((1 << self.W) - 1, self.W)
        self.unit = self.full
        self.Tfull = [self.expand_states(t) for t in self.T]
    def pos(self, i, j): return i * (1 + self.k) + j          # j = 0: state bit, j >= 1: copy j-1
    def state_of(self, idx): return sum(((idx >> self.pos(i, 0)) & 1) << i for i in range(self.n))
    def copy_of(self, idx, j): return sum(((idx >> self.pos(i, j + 1)) & 1) << i for i in range(self.n))
    def expand_states(self, small):
        """BV over states -> BV over all valuations (independent of copies)"""
        r = z3.BitVecVal(0, self.W)
        for s in range(1 << self.n):
            mask = sum(1 << idx for idx in range(self.W) if self.state_of(idx) == s)
            r = r | z3.If(z3.Extract(s, s, small) == 1, z3.BitVecVal(mask, self.W), z3.BitVecVal(0, self.W))
        return r
    def var_tt(self, b): return z3.BitVecVal(sum(1 << idx for idx in range(self.W) if (idx >> b) & 1), self.W)
    def flip(self, b, x):
        lo = sum(1 << idx for idx in range(self.W) if not (idx >> b) & 1)
        hi = ((1 << self.W) - 1) ^ lo; sh = 1 << b
        return ((x & z3.BitVecVal(lo, self.W)) << sh) | z3.LShR(x & z3.BitVecVal(hi, self.W), sh)
    def exists(self, x, bs):
        for b in bs: x = x | self.flip(b, x)
        return x
    def var_pre(self, i, x): return self.flip(self.pos(i, 0), x) & self.Tfull[i]
    def pre(self, x):
        r = z3.BitVecVal(0, self.W)
        for i in range(self.n): r = r | self.var_pre(i, x)
        return r
    def steady(self):
        r = self.unit
        for t in self.Tfull: r = r & ~t
        return r
    def bdd_var_by_name(self, name):
        mm = re.match(r'^(v\d+)(?:_extra_(\d+))?$', name)
        i = self.names.index(mm.group(1)); j = 0 if mm.group(2) is None else int(mm.group(2)) + 1
        if j > self.k: raise Panic('no such bdd variable ' + name)
        return self.pos(i, j)

class GraphObj:
    def __init__(self, model, unit=None): self.model, self.unit = model, (model.unit if unit is None else unit)
class CtxObj:
    def __init__(self, model): self.model = model
class VarSetObj:
    def __init__(self, model): self.model = model
class VarIter:
    def __init__(self, lo, hi, rev=False): self.lo, self.hi, self.rev = lo, hi, rev
class MapIter:
    def __init__(self, rmap): self.rmap, self.i = rmap, 0

Interp_rvalue0 = Interp.rvalue
def rvalue2(self, fr, rv, fn):
    v = Interp_rvalue0(self, fr, rv, fn)
    if isinstance(v, BoxRaw): return Ptr(v.cell)
    return v
Interp.rvalue = rvalue2
Interp_call0 = Interp.call
def call2(self, fname, args):
    f = strip_generics(fname)
    g = lambda x: x.get() if isinstance(x, Ptr) else x
    base = f
    for _ in range(4): base = re.sub(r'<[^<>]*>', '', base)
    M = self.model
    mm = re.match(r'^<(.+) as (.+)>::(\w+)$', f)
    trait, meth = (mm.group(2).split('<')[0].split('::')[-1], mm.group(3)) if mm else (None, None)
    selfty = mm.group(1) if mm else ''
    # ---- sets
    if trait == 'Set':
        a = g(args[0]); b = g(args[1]) if len(args) > 1 else None
        if meth == 'intersect': return a & b
        if meth == 'union': return a | b
        if meth == 'minus': return a & ~b
        if meth == 'is_empty': return a == 0
        if meth == 'is_subset': return (a & ~b) == 0
    if trait == 'Clone' and z3.is_expr(g(args[0])): return g(args[0])
    if 'impl SymbolicAsyncGraph' in fname:
        gr = g(args[0]); name = f.split('::')[-1]
        if name == 'mk_empty_colored_vertices': return z3.BitVecVal(0, M.W)
        if name == 'mk_unit_colored_vertices': return gr.unit
        if name == 'unit_colored_vertices': return Ptr(Cell(gr.unit))
        if name == 'pre': return M.pre(g(args[1]))
        if name == 'var_pre': return M.var_pre(args[1], g(args[2]))
        if name == 'variables': return VarIter(0, M.n)
        if name == 'symbolic_context': return Ptr(Cell(CtxObj(M)))
        if name == 'get_variable_name': return RString([ord(c) for c in M.names[args[1]]])
        if name == 'as_network': return Agg('Option', 1, [Ptr(Cell('network'))])
        if name == 'with_custom_context': return Agg('Result', 0, [GraphObj(M, args[2])])
    if 'impl SymbolicContext' in fname:
        name = f.split('::')[-1]
        if name == 'bdd_variable_set': return Ptr(Cell(VarSetObj(M)))
        if name == 'find_network_variable':
            s = show(g(args[1]).chars)
            return Agg('Option', 1, [M.names.index(s)]) if s in M.names else Agg('Option', 0, [])
        if name == 'mk_state_variable_is_true': return M.var_tt(M.pos(args[1], 0))
        if name == 'extra_state_variables': return Ptr(Cell(RVec([M.pos(args[1], j + 1) for j in range(M.k)])))
        if name == 'state_variables': return Ptr(Cell(RVec([M.pos(i, 0) for i in range(M.n)])))
    if trait == 'Clone' and isinstance(g(args[0]), (CtxObj, GraphObj)): return g(args[0])
    if 'impl BddVariableSet' in fname and f.endswith('mk_var_by_name'): return M.var_tt(M.bdd_var_by_name(show(g(args[1]).chars)))
    if 'impl Bdd>' in fname:
        name = f.split('::')[-1]; a = g(args[0])
        if name == 'and': return a & g(args[1])
        if name == 'iff': return ~(a ^ g(args[1]))
        if name == 'exists':
            vs = g(args[1]); vs = vs.items if isinstance(vs, RVec) else vs.vec.items[vs.lo:vs.hi]
            return M.exists(a, vs)
    if 'impl GraphColoredVertices' in fname:
        name = f.split('::')[-1]
        if name == 'new': return g(args[0])
        if name == 'as_bdd': return args[0] if isinstance(args[0], Ptr) else Ptr(Cell(args[0]))
        if name == 'into_bdd': return g(args[0])
    if base.endswith('FixedPoints::symbolic'): return M.steady() & g(args[1])
    if f.endswith('compute_attractor_states') and False: pass
    # ---- iterators over variables
    if trait == 'Iterator' and isinstance(g(args[0]), VarIter):
        it = g(args[0])
        if meth == 'rev': return VarIter(it.lo, it.hi, True)
        if meth == 'next':
            if it.lo >= it.hi: return Agg('Option', 0, [])
            if it.rev: it.hi -= 1; return Agg('Option', 1, [it.hi])
            it.lo += 1; return Agg('Option', 1, [it.lo - 1])
    if trait == 'IntoIterator' and isinstance(args[0], VarIter): return args[0]
    # ---- maps
    mk = re.match(r'^(?:std::collections::)?(HashMap|BTreeMap|HashSet|VarDomainMap)::(\w+)$', base)
    if mk:
        kind, name = mk.groups()
        if name == 'new': return RMap(kind)
        mp = g(args[0])
        def find(key):
            ks = keystr(key)
            for ent in mp.items:
                if keystr(ent[0]) == ks: return ent
            return None
        if name == 'contains_key': return find(args[1]) is not None
        if name == 'get' or name == 'get_mut':
            e = find(args[1])
            return Agg('Option', 0, []) if e is None else Agg('Option', 1, [Ptr(Cell(e)).sub(1)])
        if name == 'insert':
            e = find(args[1]); val = args[2] if len(args) > 2 else None
            if e is None:
                mp.items.append([args[1], val])
                if kind == 'BTreeMap': mp.items.sort(key=lambda kv: keystr(kv[0]))
                return Agg('Option', 0, []) if len(args) > 2 else True
            old = e[1]; e[1] = val
            return Agg('Option', 1, [old]) if len(args) > 2 else False
        if name == 'remove':
            e = find(args[1])
            if e is None: return Agg('Option', 0, [])
            mp.items.remove(e); return Agg('Option', 1, [e[1]])
        if name == 'iter': return MapIter(mp)
        if name == 'is_empty': return len(mp.items) == 0
        if name == 'len': return len(mp.items)
    if trait == 'Index' and isinstance(g(args[0]), RMap):
        mp = g(args[0]); ks = keystr(args[1])
        for ent in mp.items:
            if keystr(ent[0]) == ks: return Ptr(Cell(ent)).sub(1)
        raise Panic('HashMap index: key not found')
    if trait == 'IntoIterator' and isinstance(g(args[0]), RMap): return MapIter(g(args[0]))
    if trait == 'IntoIterator' and isinstance(args[0], MapIter): return args[0]
    if trait == 'Iterator' and meth == 'next' and isinstance(g(args[0]), MapIter):
        it = g(args[0])
        if it.i >= len(it.rmap.items): return Agg('Option', 0, [])
        ent = it.rmap.items[it.i]; it.i += 1
        return Agg('Option', 1, [Agg('tuple', None, [Ptr(Cell(ent)).sub(0), Ptr(Cell(ent)).sub(1)])])
    if trait == 'Iterator' and meth == 'by_ref': return args[0]
    if trait == 'Iterator' and meth == 'next' and isinstance(g(args[0]), Ptr): return self.call(fname, [g(args[0])])
    if base.endswith('str::len') or base.endswith('String::len'): return len(g(args[0]).chars)
    if re.search(r'slice::<impl \[\w+\]>::get$', f) or base.endswith('::get') and isinstance(g(args[0]), (Slice, RVec)):
        sl = g(args[0]); sl = sl if isinstance(sl, Slice) else Slice(sl, 0, len(sl.items))
        return Agg('Option', 1, [Ptr(Cell(sl.vec)).sub(sl.lo + args[1])]) if args[1] < sl.hi - sl.lo else Agg('Option', 0, [])
    if base.endswith('Result::unwrap'):
        if args[0].variant == 1: raise Panic('unwrap on Err')
        return args[0].fields[0]
    if base.endswith('io::_print'): return ()
    if trait == 'Drop' and meth == 'drop': return ()
    return Interp_call0(self, fname, args)
Interp.call = call2

class BoxRaw:
    def __init__(self, cell): self.cell = cell
def proj_get2(v, p):
    if isinstance(v, Cell): return BoxRaw(v)
    if isinstance(v, BoxRaw): return v
    if isinstance(v, list): return v[p]
    if isinstance(v, Agg): return v.fields[p]
    if isinstance(v, RVec): return v.items[p]
    raise Unsupported(f'proj {p} on {v!r}')
def proj_set2(v, p, nv):
    if isinstance(v, Cell): v = v.v
    if isinstance(v, list): v[p] = nv
    elif isinstance(v, Agg): v.fields[p] = nv
    elif isinstance(v, RVec): v.items[p] = nv
    else: raise Unsupported('proj_set')
globals()['proj_get'] = proj_get2; globals()['proj_set'] = proj_set2

# ------------------------------------------------------------------ oracle
def oracle(M, phi, names):
    """semantics as a BV over all valuations; HCTL variable named x*(j+1) lives in copy j"""
    S = range(1 << M.n)
    def tbit(i, s): return z3.Extract(s, s, M.T[i]) == 1
    def succs(s):
        out = [(tbit(i, s), s ^ (1 << i)) for i in range(M.n)]
        out.append((z3.And([z3.Not(c) for c, _ in out]), s))
        return out
    def sem(phi, env):
        op = phi[0]
        if op == 'true': return {s: z3.BoolVal(True) for s in S}
        if op == 'false': return {s: z3.BoolVal(False) for s in S}
        if op == 'var': return {s: z3.BoolVal(s == env[phi[1]]) for s in S}
        if op == 'prop': return {s: z3.BoolVal(bool((s >> phi[1]) & 1)) for s in S}
        if op == 'not': a = sem(phi[1], env); return {s: z3.Not(a[s]) for s in S}
        if op in ('and', 'or', 'imp', 'iff', 'xor'):
            a, b = sem(phi[1], env), sem(phi[2], env)
            f = {'and': z3.And, 'or': z3.Or, 'imp': z3.Implies, 'iff': lambda x, y: x == y, 'xor': z3.Xor}[op]
            return {s: f(a[s], b[s]) for s in S}
        ex = lambda a: {s: z3.Or([z3.And(g, a[t]) for g, t in succs(s)]) for s in S}
        ax = lambda a: {s: z3.And([z3.Implies(g, a[t]) for g, t in succs(s)]) for s in S}
        def fix(f, init):
            x = {s: z3.BoolVal(init) for s in S}
            for _ in S: x = f(x)
            return x
        if op == 'EX': return ex(sem(phi[1], env))
        if op == 'AX': return ax(sem(phi[1], env))
        if op == 'EF': a = sem(phi[1], env); return fix(lambda z: {s: z3.Or(a[s], ex(z)[s]) for s in S}, False)
        if op == 'AF': a = sem(phi[1], env); return fix(lambda z: {s: z3.Or(a[s], ax(z)[s]) for s in S}, False)
        if op == 'EG': a = sem(phi[1], env); return fix(lambda z: {s: z3.And(a[s], ex(z)[s]) for s in S}, True)
        if op == 'AG': a = sem(phi[1], env); return fix(lambda z: {s: z3.And(a[s], ax(z)[s]) for s in S}, True)
        if op == 'EU': a, b = sem(phi[1], env), sem(phi[2], env); return fix(lambda z: {s: z3.Or(b[s], z3.And(a[s], ex(z)[s])) for s in S}, False)
        if op == 'AU': a, b = sem(phi[1], env), sem(phi[2], env); return fix(lambda z: {s: z3.Or(b[s], z3.And(a[s], ax(z)[s])) for s in S}, False)
        if op == 'EW':
            a, b = sem(phi[1], env), sem(phi[2], env)
            eu = fix(lambda z: {s: z3.Or(b[s], z3.And(a[s], ex(z)[s])) for s in S}, False)
            eg = fix(lambda z: {s: z3.And(a[s], ex(z)[s]) for s in S}, True)
            return {s: z3.Or(eu[s], eg[s]) for s in S}
        if op == 'bind': return {s: sem(phi[2], {**env, phi[1]: s})[s] for s in S}
        if op == 'jump': a = sem(phi[2], env); return {s: a[env[phi[1]]] for s in S}
        if op == 'exists': subs = [sem(phi[2], {**env, phi[1]: t}) for t in S]; return {s: z3.Or([a[s] for a in subs]) for s in S}
        if op == 'forall': subs = [sem(phi[2], {**env, phi[1]: t}) for t in S]; return {s: z3.And([a[s] for a in subs]) for s in S}
        raise KeyError(op)
    per_state = sem(phi, {})
    r = z3.BitVecVal(0, M.W)
    for s in S:
        mask = sum(1 << idx for idx in range(M.W) if M.state_of(idx) == s)
        r = r | z3.If(per_state[s], z3.BitVecVal(mask, M.W), z3.BitVecVal(0, M.W))
    return r

# ------------------------------------------------------------------ driver
def to_ast(I, node):
    """HctlTreeNode aggregate (from the real parser run) -> oracle AST"""
    nt = node.fields[2]; kinds = ['Terminal', 'Unary', 'Binary', 'Hybrid']
    k = kinds[nt.variant]
    if k == 'Terminal':
        a = nt.fields[0]; an = I.enums['Atomic'][a.variant]
        if an == 'True': return ('true',)
        if an == 'False': return ('false',)
        nm = show(a.fields[0].chars)
        if an == 'Var': return ('var', nm)
        if an == 'Prop': return ('prop', int(nm[1:]))
    if k == 'Unary':
        op = I.enums['UnaryOp'][nt.fields[0].variant]; c = to_ast(I, nt.fields[1].v)
        return ('not', c) if op == 'Not' else (op, c)
    if k == 'Binary':
        op = I.enums['BinaryOp'][nt.fields[0].variant]
        l, r = to_ast(I, nt.fields[1].v), to_ast(I, nt.fields[2].v)
        return ({'And': 'and', 'Or': 'or', 'Xor': 'xor', 'Imp': 'imp', 'Iff': 'iff'}.get(op, op), l, r)
    if k == 'Hybrid':
        op = I.enums['HybridOp'][nt.fields[0].variant]
        return ({'Bind': 'bind', 'Jump': 'jump', 'Exists': 'exists', 'Forall': 'forall'}[op], show(nt.fields[1].chars), to_ast(I, nt.fields[3].v))

def check_formula(I, n, k, text):
    M = Model(n, k); I.model = M
    t0 = time.time()
    work, paths, verdicts = [[]], 0, []
    while work:
        prefix = work.pop()
        I.sym = Symbolic(prefix)
        # real preprocessing from MIR: parse + validate/rename
        pm = I.by_last['parse_and_minimize_hctl_formula'][0]
        r = I.run(pm, [Ptr(Cell(CtxObj(M))), RStr([ord(c) for c in text])])
        if r.variant != 0: return f'preprocessing error: {show(r.fields[0].chars)}'
        tree = r.fields[0]
        ast = to_ast(I, tree)
        ctx_new = [f for f in I.by_last['new'] if (I.impl_span_info(f.name) or (0, 0))[1] == 'EvalContext'][0]
        ectx = I.run(ctx_new, [RMap('HashMap')])
        en = I.by_last['eval_node'][0]
        res = I.run(en, [tree, Ptr(Cell(GraphObj(M))), Ptr(Cell(ectx)), Ptr(Cell(M.steady())), Ptr(Cell(FnItem('mc_utils::dont_track_progress')))])
        paths += 1
        work.extend(I.sym.pending)
        s = z3.Solver()
        for a in I.sym.solver.assertions(): s.add(a)
        s.add(res != oracle(M, ast, None))
        verdicts.append(str(s.check()))
    return f'{paths} paths, verdicts {sorted(set(verdicts))}, {time.time()-t0:.1f}s'

if __name__ == '__main__':
    I = Interp('/repo', '/root/scratch/mir/lib.mir')
    n = int(sys.argv[1]) if len(sys.argv) > 1 else 2
    tests = [
        (0, 'v0 & ~v1'), (0, 'EX v0'), (0, 'AX v0'), (0, 'EF v1'), (0, 'AG (v0 | v1)'), (0, 'EG v0'), (0, 'v0 EU v1'), (0, 'v0 AU v1'),
        (1, '!{x}: EX {x}'), (1, '!{x}: AX ({x} & {x})'), (1, '3{x}: @{x}: (v0 & AX {x})'), (1, 'V{x}: (EF {x})'),
        (1, '!{x}: AX {x}'), (2, '!{x}: 3{y}: (@{x}: ~{y} & AX {x}) & (@{y}: AX {y})'), (0, 'v0 EW v1'),
    ]
    for k, t in tests:
        try: print(f'n={n} k={k}  {t:55s} {check_formula(I, n, k, t)}')
        except (Unsupported, Panic) as e: print(f'n={n} k={k}  {t:55s} {type(e).__name__}: {str(e)[:150]}')
