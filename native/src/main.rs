//! hv-native: runs real entry points of biodivine-hctl-model-checker (the working tree at /repo) on JSON jobs.
//! One JSON job per input line, one JSON answer per output line.  Used by E-UNI, by replay and by conformance.
use biodivine_hctl_model_checker::evaluation::eval_context::EvalContext;
use biodivine_hctl_model_checker::mc_utils::*;
use biodivine_hctl_model_checker::model_checking::*;
use biodivine_hctl_model_checker::preprocessing::hctl_tree::{HctlTreeNode, NodeType};
use biodivine_hctl_model_checker::preprocessing::operator_enums::*;
use biodivine_hctl_model_checker::preprocessing::parser::*;
use biodivine_hctl_model_checker::preprocessing::tokenizer::*;
use biodivine_hctl_model_checker::preprocessing::utils::*;
use biodivine_lib_bdd::Bdd;
use biodivine_lib_param_bn::biodivine_std::traits::Set;
use biodivine_lib_param_bn::symbolic_async_graph::{GraphColoredVertices, SymbolicAsyncGraph, SymbolicContext};
use biodivine_lib_param_bn::{BooleanNetwork, FnUpdate};
use serde_json::{Value, json};
use std::collections::HashMap;
use std::io::BufRead;
use std::panic::{AssertUnwindSafe, catch_unwind};

fn load_bn(job: &Value) -> Result<BooleanNetwork, String> {
    if let Some(a) = job.get("aeon").and_then(|x| x.as_str()) {
        BooleanNetwork::try_from(a)
    } else if let Some(b) = job.get("bnet").and_then(|x| x.as_str()) {
        BooleanNetwork::try_from_bnet(b)
    } else {
        Err("no model".to_string())
    }
}

fn panic_msg(e: Box<dyn std::any::Any + Send>) -> String {
    if let Some(s) = e.downcast_ref::<String>() {
        s.clone()
    } else if let Some(s) = e.downcast_ref::<&str>() {
        s.to_string()
    } else {
        "panic".to_string()
    }
}

/// evaluate a set specification
fn eval_set(spec: &Value, stg: &SymbolicAsyncGraph, bn: &BooleanNetwork, named: &HashMap<String, GraphColoredVertices>) -> Result<GraphColoredVertices, String> {
    let ctx = stg.symbolic_context();
    let unit = stg.unit_colored_vertices();
    let t = spec["t"].as_str().ok_or("set spec without t")?;
    let mk = |b: Bdd| GraphColoredVertices::new(b, ctx);
    Ok(match t {
        "unit" => unit.clone(),
        "empty" => stg.mk_empty_colored_vertices(),
        "param" => {
            let name = spec["name"].as_str().unwrap();
            let p = bn.find_parameter(name).ok_or(format!("no parameter {name}"))?;
            let arity = bn.get_parameter(p).get_arity() as usize;
            let args: Vec<FnUpdate> = bn.variables().take(arity).map(FnUpdate::mk_var).collect();
            mk(ctx.mk_uninterpreted_function_is_true(p, &args)).intersect(unit)
        }
        "expr" => {
            let e = spec["e"].as_str().unwrap();
            let b = { let ex = biodivine_lib_bdd::boolean_expression::BooleanExpression::try_from(e)?; ctx.bdd_variable_set().safe_eval_expression(&ex).ok_or(format!("bad expr {e}"))? };
            mk(b).intersect(unit)
        }
        "rawexpr" => {
            // not intersected with the unit set
            let e = spec["e"].as_str().unwrap();
            mk({ let ex = biodivine_lib_bdd::boolean_expression::BooleanExpression::try_from(e)?; ctx.bdd_variable_set().safe_eval_expression(&ex).ok_or(format!("bad expr {e}"))? })
        }
        "and" => {
            let mut r = unit.clone();
            for a in spec["a"].as_array().unwrap() { r = r.intersect(&eval_set(a, stg, bn, named)?); }
            r
        }
        "or" => {
            let mut r = stg.mk_empty_colored_vertices();
            for a in spec["a"].as_array().unwrap() { r = r.union(&eval_set(a, stg, bn, named)?); }
            r
        }
        "not" => unit.minus(&eval_set(&spec["a"], stg, bn, named)?),
        "bdd" => mk(Bdd::from_string(spec["s"].as_str().unwrap())),
        "mc" => model_check_extended_formula_dirty(spec["f"].as_str().unwrap(), stg, named)?,
        "ref" => named.get(spec["name"].as_str().unwrap()).ok_or("unknown ref")?.clone(),
        _ => return Err(format!("unknown set spec {t}")),
    })
}

fn tree_json(t: &HctlTreeNode) -> Value {
    let node = match &t.node_type {
        NodeType::Terminal(a) => match a {
            Atomic::Prop(n) => json!({"k":"prop","name":n}),
            Atomic::Var(n) => json!({"k":"var","name":n}),
            Atomic::True => json!({"k":"true"}),
            Atomic::False => json!({"k":"false"}),
            Atomic::WildCardProp(n) => json!({"k":"wild","name":n}),
        },
        NodeType::Unary(op, c) => json!({"k":"un","op":format!("{op:?}"),"c":tree_json(c)}),
        NodeType::Binary(op, l, r) => json!({"k":"bin","op":format!("{op:?}"),"l":tree_json(l),"r":tree_json(r)}),
        NodeType::Hybrid(op, v, d, c) => json!({"k":"hyb","op":format!("{op:?}"),"var":v,"dom":d,"c":tree_json(c)}),
    };
    json!({"s": t.formula_str, "h": t.height, "n": node})
}

fn tree_from_json(v: &Value) -> HctlTreeNode {
    // builds trees with the public constructors
    let n = &v["n"];
    let un = |s: &str| match s { "Not" => UnaryOp::Not, "EX" => UnaryOp::EX, "AX" => UnaryOp::AX, "EF" => UnaryOp::EF, "AF" => UnaryOp::AF, "EG" => UnaryOp::EG, _ => UnaryOp::AG };
    let bi = |s: &str| match s { "And" => BinaryOp::And, "Or" => BinaryOp::Or, "Xor" => BinaryOp::Xor, "Imp" => BinaryOp::Imp, "Iff" => BinaryOp::Iff, "EU" => BinaryOp::EU, "AU" => BinaryOp::AU, "EW" => BinaryOp::EW, _ => BinaryOp::AW };
    let hy = |s: &str| match s { "Bind" => HybridOp::Bind, "Jump" => HybridOp::Jump, "Exists" => HybridOp::Exists, _ => HybridOp::Forall };
    match n["k"].as_str().unwrap() {
        "prop" => HctlTreeNode::mk_proposition(n["name"].as_str().unwrap()),
        "var" => HctlTreeNode::mk_variable(n["name"].as_str().unwrap()),
        "true" => HctlTreeNode::mk_constant(true),
        "false" => HctlTreeNode::mk_constant(false),
        "wild" => HctlTreeNode::mk_wild_card(n["name"].as_str().unwrap()),
        "un" => HctlTreeNode::mk_unary(tree_from_json(&n["c"]), un(n["op"].as_str().unwrap())),
        "bin" => HctlTreeNode::mk_binary(tree_from_json(&n["l"]), tree_from_json(&n["r"]), bi(n["op"].as_str().unwrap())),
        _ => HctlTreeNode::mk_hybrid(tree_from_json(&n["c"]), n["var"].as_str().unwrap(), n["dom"].as_str().map(|x| x.to_string()), hy(n["op"].as_str().unwrap())),
    }
}

fn token_json(t: &HctlToken) -> Value {
    match t {
        HctlToken::Unary(op) => json!({"k":"un","op":format!("{op:?}")}),
        HctlToken::Binary(op) => json!({"k":"bin","op":format!("{op:?}")}),
        HctlToken::Hybrid(op, v, d) => json!({"k":"hyb","op":format!("{op:?}"),"var":v,"dom":d}),
        HctlToken::Atom(Atomic::Prop(n)) => json!({"k":"prop","name":n}),
        HctlToken::Atom(Atomic::Var(n)) => json!({"k":"var","name":n}),
        HctlToken::Atom(Atomic::WildCardProp(n)) => json!({"k":"wild","name":n}),
        HctlToken::Atom(Atomic::True) => json!({"k":"true"}),
        HctlToken::Atom(Atomic::False) => json!({"k":"false"}),
        HctlToken::Tokens(v) => json!({"k":"group","t":v.iter().map(token_json).collect::<Vec<_>>()}),
    }
}

fn res_json<T, F: Fn(&T) -> Value>(r: std::thread::Result<Result<T, String>>, f: F) -> Value {
    match r {
        Ok(Ok(v)) => json!({"ok": f(&v)}),
        Ok(Err(e)) => json!({"err": e}),
        Err(p) => json!({"panic": panic_msg(p)}),
    }
}

fn bdd_s(s: &GraphColoredVertices) -> Value { json!(s.as_bdd().to_string()) }

fn describe_ctx(ctx: &SymbolicContext, stg: &SymbolicAsyncGraph) -> Value {
    let vs = ctx.bdd_variable_set();
    let names: Vec<String> = vs.variables().iter().map(|v| vs.name_of(*v)).collect();
    let idx = |v: &biodivine_lib_bdd::BddVariable| -> usize { vs.variables().iter().position(|x| x == v).unwrap() };
    let state: Vec<usize> = ctx.state_variables().iter().map(idx).collect();
    let params: Vec<usize> = ctx.parameter_variables().iter().map(idx).collect();
    let extra: Vec<Vec<usize>> = stg.variables().map(|v| ctx.extra_state_variables(v).iter().map(idx).collect()).collect();
    let netnames: Vec<String> = stg.variables().map(|v| stg.get_variable_name(v)).collect();
    let fns: Vec<String> = stg.variables().map(|v| stg.get_symbolic_fn_update(v).to_string()).collect();
    json!({"vars": names, "state": state, "params": params, "extra": extra, "netvars": netnames,
           "unit": stg.unit_colored_vertices().as_bdd().to_string(), "fn_update": fns})
}

fn job_mc(job: &Value) -> Result<Value, String> {
    let bn = load_bn(job)?;
    let k = job["k"].as_u64().unwrap_or(0) as u16;
    let stg = get_extended_symbolic_graph(&bn, k)?;
    let mut out = describe_ctx(stg.symbolic_context(), &stg);
    // context sets
    let mut named: HashMap<String, GraphColoredVertices> = HashMap::new();
    let mut ctx_out = serde_json::Map::new();
    if let Some(order) = job.get("context_order").and_then(|x| x.as_array()) {
        for label in order {
            let label = label.as_str().unwrap();
            let s = eval_set(&job["context"][label], &stg, &bn, &named)?;
            ctx_out.insert(label.to_string(), bdd_s(&s));
            named.insert(label.to_string(), s);
        }
    } else if let Some(c) = job.get("context").and_then(|x| x.as_object()) {
        for (label, spec) in c {
            let s = eval_set(spec, &stg, &bn, &named)?;
            ctx_out.insert(label.clone(), bdd_s(&s));
            named.insert(label.clone(), s);
        }
    }
    // labels listed in "drop" are evaluated (so refs work) but not passed to the tool
    let mut context: HashMap<String, GraphColoredVertices> = named.clone();
    if let Some(d) = job.get("drop").and_then(|x| x.as_array()) {
        for l in d { context.remove(l.as_str().unwrap()); }
    }
    out["context"] = Value::Object(ctx_out);
    let mut runs = Vec::new();
    for run in job["runs"].as_array().ok_or("no runs")? {
        let entry = run["entry"].as_str().unwrap_or("formula_dirty");
        let fs: Vec<&str> = run["formulas"].as_array().unwrap().iter().map(|x| x.as_str().unwrap()).collect();
        let observer = run["observer"].as_bool().unwrap_or(false);
        let mut calls = 0usize;
        // besides the BDD, what the returned OBJECT itself projects to (its own variable lists are used by vertices() / colors())
        let proj: std::cell::RefCell<Vec<Value>> = std::cell::RefCell::new(Vec::new());
        let one = |r: &GraphColoredVertices| {
            let p = catch_unwind(AssertUnwindSafe(|| json!({"v": r.vertices().as_bdd().to_string(), "c": r.colors().as_bdd().to_string(), "nv": r.as_bdd().num_vars()})));
            proj.borrow_mut().push(match p { Ok(v) => v, Err(e) => json!({"panic": panic_msg(e)}) });
            bdd_s(r)
        };
        let many = |r: &Vec<GraphColoredVertices>| Value::Array(r.iter().map(|x| one(x)).collect());
        let t0 = std::time::Instant::now();
        let r = {
            let mut cb = |_: &GraphColoredVertices, _: &str| { calls += 1; };
            match entry {
                "formula" => res_json(catch_unwind(AssertUnwindSafe(|| if observer { _model_check_formula(fs[0], &stg, &mut cb) } else { model_check_formula(fs[0], &stg) })), one),
                "formula_dirty" => res_json(catch_unwind(AssertUnwindSafe(|| if observer { _model_check_formula_dirty(fs[0], &stg, &mut cb) } else { model_check_formula_dirty(fs[0], &stg) })), one),
                "multi" => res_json(catch_unwind(AssertUnwindSafe(|| if observer { _model_check_multiple_formulae(fs.clone(), &stg, &mut cb) } else { model_check_multiple_formulae(fs.clone(), &stg) })), many),
                "multi_dirty" => res_json(catch_unwind(AssertUnwindSafe(|| if observer { _model_check_multiple_formulae_dirty(fs.clone(), &stg, &mut cb) } else { model_check_multiple_formulae_dirty(fs.clone(), &stg) })), many),
                "ext" => res_json(catch_unwind(AssertUnwindSafe(|| if observer { _model_check_extended_formula(fs[0], &stg, &context, &mut cb) } else { model_check_extended_formula(fs[0], &stg, &context) })), one),
                "ext_dirty" => res_json(catch_unwind(AssertUnwindSafe(|| if observer { _model_check_extended_formula_dirty(fs[0], &stg, &context, &mut cb) } else { model_check_extended_formula_dirty(fs[0], &stg, &context) })), one),
                "ext_multi" => res_json(catch_unwind(AssertUnwindSafe(|| if observer { _model_check_multiple_extended_formulae(fs.clone(), &stg, &context, &mut cb) } else { model_check_multiple_extended_formulae(fs.clone(), &stg, &context) })), many),
                "ext_multi_dirty" => res_json(catch_unwind(AssertUnwindSafe(|| if observer { _model_check_multiple_extended_formulae_dirty(fs.clone(), &stg, &context, &mut cb) } else { model_check_multiple_extended_formulae_dirty(fs.clone(), &stg, &context) })), many),
                "unsafe_ex" => res_json(catch_unwind(AssertUnwindSafe(|| model_check_formula_unsafe_ex(fs[0], &stg))), one),
                "tree" | "tree_dirty" | "trees" | "trees_dirty" => {
                    // parse + minimize with the real preprocessing, then go through the tree entry points
                    let trees: Result<Vec<HctlTreeNode>, String> = fs.iter().map(|f| parse_and_minimize_hctl_formula(stg.symbolic_context(), f)).collect();
                    match trees {
                        Err(e) => json!({"err": e}),
                        Ok(trees) => match entry {
                            "tree" => res_json(catch_unwind(AssertUnwindSafe(|| model_check_tree(trees[0].clone(), &stg))), one),
                            "tree_dirty" => res_json(catch_unwind(AssertUnwindSafe(|| model_check_tree_dirty(trees[0].clone(), &stg))), one),
                            "trees" => res_json(catch_unwind(AssertUnwindSafe(|| model_check_multiple_trees(trees.clone(), &stg))), many),
                            _ => res_json(catch_unwind(AssertUnwindSafe(|| model_check_multiple_trees_dirty(trees.clone(), &stg))), many),
                        },
                    }
                }
                "nocache_dirty" => {
                    // evaluation with sharing disabled: an EvalContext that marks no duplicates (public API only)
                    res_json(catch_unwind(AssertUnwindSafe(|| -> Result<Vec<GraphColoredVertices>, String> {
                        let mut out = Vec::new();
                        for f in &fs {
                            let tree = parse_and_minimize_extended_formula(stg.symbolic_context(), f)?;
                            let (props, doms) = validate_and_divide_wild_cards(&tree, &context)?;
                            let mut ec = EvalContext::new(HashMap::new());
                            ec.extend_context_with_wild_cards(&props, &doms);
                            // wild-card leaves need their duplicate counter high enough never to be evicted
                            for (_k, v) in ec.duplicates.iter_mut() { *v = 1_000_000; }
                            let steady = biodivine_hctl_model_checker::evaluation::algorithm::compute_steady_states(&stg);
                            out.push(biodivine_hctl_model_checker::evaluation::algorithm::eval_node(tree, &stg, &mut ec, &steady, &mut |_: &GraphColoredVertices, _: &str| {}));
                        }
                        Ok(out)
                    })), many)
                }
                _ => json!({"err": format!("unknown entry {entry}")}),
            }
        };
        let mut r = r;
        r["proj"] = Value::Array(proj.into_inner());
        r["observer_calls"] = json!(calls);
        r["ms"] = json!(t0.elapsed().as_millis() as u64);
        runs.push(r);
    }
    out["runs"] = Value::Array(runs);
    if let Some(ops) = job.get("libops").and_then(|x| x.as_array()) {
        let mut res = Vec::new();
        for op in ops { res.push(lib_op(op, &stg, &bn, &named)?); }
        out["libops"] = Value::Array(res);
    }
    // the canonical (plain) graph, for C15
    if job.get("plain").and_then(|x| x.as_bool()).unwrap_or(false) {
        let plain = SymbolicAsyncGraph::new(&bn)?;
        out["plain"] = describe_ctx(plain.symbolic_context(), &plain);
        // compatibility: every sanitized single result must be usable with the plain graph
        let mut compat = Vec::new();
        for run in out["runs"].as_array().unwrap().clone() {
            if let Some(s) = run.get("ok").and_then(|x| x.as_str()) {
                let b = Bdd::from_string(s);
                let ok = catch_unwind(AssertUnwindSafe(|| {
                    let set = GraphColoredVertices::new(b.clone(), plain.symbolic_context());
                    let i = plain.unit_colored_vertices().intersect(&set);
                    let _ = plain.pre(&i);
                    (b.num_vars() == plain.symbolic_context().bdd_variable_set().num_vars(), i.as_bdd().to_string(), set.vertices().as_bdd().to_string(), set.colors().as_bdd().to_string())
                }));
                compat.push(match ok { Ok((same, s, ev, ec)) => json!({"same_num_vars": same, "and_unit": s, "exp_v": ev, "exp_c": ec}), Err(p) => json!({"panic": panic_msg(p)}) });
            } else { compat.push(Value::Null); }
        }
        out["plain_compat"] = Value::Array(compat);
    }
    Ok(out)
}

fn job_text(job: &Value) -> Result<Value, String> {
    let text = job["text"].as_str().unwrap_or("").to_string();
    let what = job["what"].as_str().unwrap_or("parse");
    Ok(match what {
        "tokenize" => res_json(catch_unwind(|| try_tokenize_formula(text.clone())), |t| Value::Array(t.iter().map(token_json).collect())),
        "tokenize_ext" => res_json(catch_unwind(|| try_tokenize_extended_formula(text.clone())), |t| Value::Array(t.iter().map(token_json).collect())),
        "parse" => res_json(catch_unwind(|| parse_hctl_formula(&text)), tree_json),
        "parse_ext" => res_json(catch_unwind(|| parse_extended_formula(&text)), tree_json),
        "minimize" | "minimize_ext" => {
            let bn = load_bn(job)?;
            let ctx = SymbolicContext::new(&bn)?;
            if what == "minimize" { res_json(catch_unwind(AssertUnwindSafe(|| parse_and_minimize_hctl_formula(&ctx, &text))), tree_json) }
            else { res_json(catch_unwind(AssertUnwindSafe(|| parse_and_minimize_extended_formula(&ctx, &text))), tree_json) }
        }
        "rename_tree" => {
            // validate_props_and_rename_vars on a tree given as JSON (built with the public constructors)
            let bn = load_bn(job)?;
            // k auxiliary variable sets (what every model_check_* entry point passes in); 0 = SymbolicContext::new
            let k = job["k"].as_u64().unwrap_or(0) as u16;
            let stg_k = if k > 0 { Some(get_extended_symbolic_graph(&bn, k)?) } else { None };
            let ctx = match &stg_k { Some(g) => g.symbolic_context().clone(), None => SymbolicContext::new(&bn)? };
            let tree = tree_from_json(&job["tree"]);
            let built = tree_json(&tree);
            let mut r = res_json(catch_unwind(AssertUnwindSafe(|| validate_props_and_rename_vars(tree.clone(), &ctx))), tree_json);
            r["built"] = built;
            r["nvars"] = json!(collect_unique_hctl_vars(tree.clone()).len());
            r
        }
        "build_tree" => {
            let tree = tree_from_json(&job["tree"]);
            let printed = tree.to_string();
            let mut r = res_json(catch_unwind(|| parse_extended_formula(&printed)), tree_json);
            r["built"] = tree_json(&tree);
            r
        }
        "canon" => {
            let t = text.clone();
            res_json(catch_unwind(move || -> Result<Value, String> {
                let (c, r) = biodivine_hctl_model_checker::evaluation::verif_hooks::get_canonical_and_renaming(t.clone());
                let c1 = biodivine_hctl_model_checker::evaluation::verif_hooks::get_canonical(t);
                let mut ren: Vec<(String, String)> = r.into_iter().collect(); ren.sort();
                Ok(json!({"canon": c, "canon_only": c1, "renaming": ren}))
            }), |v| v.clone())
        }
        "dups_trees" => {
            let trees: Vec<HctlTreeNode> = job["trees"].as_array().unwrap().iter().map(tree_from_json).collect();
            res_json(catch_unwind(AssertUnwindSafe(|| -> Result<Value, String> {
                let d = biodivine_hctl_model_checker::evaluation::mark_duplicates::mark_duplicates_canonized_multiple(&trees);
                let mut items: Vec<Value> = d.iter().map(|((f, dm), n)| json!({"f": f, "d": dm, "n": n})).collect();
                items.sort_by_key(|x| x.to_string());
                Ok(json!({"dups": items, "trees": trees.iter().map(tree_json).collect::<Vec<_>>()}))
            })), |v| v.clone())
        }
        "duplicates" => {
            // duplicates of a list of (extended) formulas after real preprocessing
            let bn = load_bn(job)?;
            let ctx = SymbolicContext::new(&bn)?;
            let fs: Vec<String> = job["formulas"].as_array().unwrap().iter().map(|x| x.as_str().unwrap().to_string()).collect();
            res_json(catch_unwind(AssertUnwindSafe(|| -> Result<Value, String> {
                let mut trees = Vec::new();
                for f in &fs { trees.push(parse_and_minimize_extended_formula(&ctx, f)?); }
                let ec = EvalContext::from_multiple_trees(&trees);
                let mut items: Vec<Value> = ec.get_duplicates().iter().map(|((f, d), n)| json!({"f": f, "d": d, "n": n})).collect();
                items.sort_by_key(|x| x.to_string());
                Ok(json!({"dups": items, "trees": trees.iter().map(tree_json).collect::<Vec<_>>()}))
            })), |v| v.clone())
        }
        _ => return Err(format!("unknown text job {what}")),
    })
}

fn lib_op(op: &Value, stg: &SymbolicAsyncGraph, bn: &BooleanNetwork, named: &HashMap<String, GraphColoredVertices>) -> Result<Value, String> {
    let stg = stg.clone();
    let stg = &stg;
    let name = op["op"].as_str().unwrap();
    let a = if op.get("a").is_some() { Some(eval_set(&op["a"], stg, bn, named)?) } else { None };
    let var = op.get("var").and_then(|x| x.as_u64()).map(|i| stg.variables().nth(i as usize).unwrap());
    let r: Value = match name {

            "id" => bdd_s(a.as_ref().unwrap()),
            "pre" => bdd_s(&stg.pre(a.as_ref().unwrap())),
            "post" => bdd_s(&stg.post(a.as_ref().unwrap())),
            "var_pre" => bdd_s(&stg.var_pre(var.unwrap(), a.as_ref().unwrap())),
            "var_post" => bdd_s(&stg.var_post(var.unwrap(), a.as_ref().unwrap())),
            "reach_backward" => bdd_s(&stg.reach_backward(a.as_ref().unwrap())),
            "trap_forward" => bdd_s(&stg.trap_forward(a.as_ref().unwrap())),
            "reach_bwd" => bdd_s(&biodivine_lib_param_bn::symbolic_async_graph::reachability::Reachability::reach_bwd(stg, a.as_ref().unwrap())),
            "reach_bwd_within" => {
                let b = eval_set(&op["b"], stg, bn, named)?;
                let g = stg.restrict(&b.union(a.as_ref().unwrap()));
                bdd_s(&biodivine_lib_param_bn::symbolic_async_graph::reachability::Reachability::reach_bwd(&g, a.as_ref().unwrap()))
            }
            "steady" => bdd_s(&biodivine_lib_param_bn::fixed_points::FixedPoints::symbolic(stg, stg.unit_colored_vertices())),
            "state_var_true" => json!(stg.symbolic_context().mk_state_variable_is_true(var.unwrap()).to_string()),
            "restrict" => {
                // with_custom_context on unit & a
                let nu = stg.unit_colored_vertices().intersect(a.as_ref().unwrap());
                match catch_unwind(AssertUnwindSafe(|| SymbolicAsyncGraph::with_custom_context(bn, stg.symbolic_context().clone(), nu.into_bdd()))) {
                    Ok(Ok(g)) => json!({"unit": g.unit_colored_vertices().as_bdd().to_string()}),
                    Ok(Err(e)) => json!({"err": e}),
                    Err(p) => json!({"panic": panic_msg(p)}),
                }
            }
            _ => return Err(format!("unknown lib op {name}")),
    };
    Ok(r)
}

/// library conformance: run library operations on sets, return BDDs
fn job_lib(job: &Value) -> Result<Value, String> {
    let bn = load_bn(job)?;
    let k = job["k"].as_u64().unwrap_or(0) as u16;
    let stg = get_extended_symbolic_graph(&bn, k)?;
    let mut out = describe_ctx(stg.symbolic_context(), &stg);
    let named = HashMap::new();
    let mut res = Vec::new();
    for op in job["ops"].as_array().unwrap() {
        res.push(lib_op(op, &stg, &bn, &named)?);
    }
    out["res"] = Value::Array(res);
    Ok(out)
}

fn fn_json(f: &FnUpdate) -> Value {
    match f {
        FnUpdate::Const(b) => json!({"k":"const","v":b}),
        FnUpdate::Var(v) => json!({"k":"var","id":v.to_index()}),
        FnUpdate::Param(p, args) => json!({"k":"param","id":p.to_index(),"args":args.iter().map(fn_json).collect::<Vec<_>>()}),
        FnUpdate::Not(a) => json!({"k":"not","a":fn_json(a)}),
        FnUpdate::Binary(op, a, b) => json!({"k":"bin","op":format!("{op:?}"),"a":fn_json(a),"b":fn_json(b)}),
    }
}

/// structure of a network as parsed by the real library (for the converter checks)
fn job_netinfo(job: &Value) -> Result<Value, String> {
    let bn = load_bn(job)?;
    let vars: Vec<String> = bn.variables().map(|v| bn.get_variable_name(v).clone()).collect();
    let regs: Vec<Vec<usize>> = bn.variables().map(|v| bn.regulators(v).into_iter().map(|r| r.to_index()).collect()).collect();
    let fns: Vec<Value> = bn.variables().map(|v| bn.get_update_function(v).as_ref().map(fn_json).unwrap_or(Value::Null)).collect();
    let params: Vec<Value> = bn.parameters().map(|p| json!({"name": bn.get_parameter(p).get_name(), "arity": bn.get_parameter(p).get_arity()})).collect();
    Ok(json!({"vars": vars, "regulators": regs, "functions": fns, "parameters": params}))
}

fn main() {
    std::panic::set_hook(Box::new(|_| {}));
    let stdin = std::io::stdin();
    for line in stdin.lock().lines() {
        let line = line.unwrap();
        if line.trim().is_empty() { continue; }
        let job: Value = match serde_json::from_str(&line) { Ok(v) => v, Err(e) => { println!("{}", json!({"fatal": e.to_string()})); continue; } };
        let r = catch_unwind(AssertUnwindSafe(|| match job["op"].as_str().unwrap_or("") {
            "mc" => job_mc(&job),
            "text" => job_text(&job),
            "lib" => job_lib(&job),
            "netinfo" => job_netinfo(&job),
            other => Err(format!("unknown op {other}")),
        }));
        let v = match r { Ok(Ok(v)) => v, Ok(Err(e)) => json!({"fatal": e}), Err(p) => json!({"fatal_panic": panic_msg(p)}) };
        println!("{}", v);
    }
}
