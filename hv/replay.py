"""Native replay of solver counterexamples against the real, natively compiled code (DESIGN.md 3.7)."""
import z3
from . import front, uni
from .oracle import sem as S

def dnf(names, states, n):
    rows = ['(' + ' & '.join((names[j] if (s >> j) & 1 else '!' + names[j]) for j in range(n)) + ')' for s in sorted(states)]
    return ' | '.join(rows) if rows else 'false'

def concrete_aeon(n, T, names=None):
    """fully specified network: T[(i,s)] = variable i can be updated in state s  =>  f_i(s) = s_i xor T"""
    names = names or [f'v{i}' for i in range(n)]
    lines = []
    for i in range(n):
        for j in range(n): lines.append(f'{names[j]} -?? {names[i]}')
        ones = [s for s in range(1 << n) if bool((s >> i) & 1) != bool(T[(i, s)])]
        lines.append(f'${names[i]}: ' + dnf(names, ones, n))
    return '\n'.join(lines) + '\n'

class StateSet(set):
    """set of states; `depends` is set when the native result depends on auxiliary (or other) symbolic variables"""
    depends = None
    def __eq__(self, o): return set.__eq__(self, o) and not self.depends and not getattr(o, 'depends', None)
    def __ne__(self, o): return not self.__eq__(o)
    __hash__ = None

def states_of(dec, bdd_str):
    r = dec.bdd(bdd_str); out = StateSet()
    for s in range(1 << dec.n):
        v = z3.simplify(dec.at_state(r, s))
        if z3.is_true(v): out.add(s)
        elif not z3.is_false(v): out.add(s); out.depends = str(v)
    return out

def concrete_spec(n, T, sets, phi, names=None, self_loops=True):
    names = names or [f'v{i}' for i in range(n)]
    K = S.Kripke(n, names, lambda i, s: z3.BoolVal(bool(T[(i, s)])), lambda l, s: z3.BoolVal(s in sets[l]), self_loops)
    r = S.sem(K, phi)
    return {s for s in range(1 << n) if z3.is_true(z3.simplify(r[s]))}

def run_concrete(n, T, sets, phi, k=None, entry='ext_dirty', names=None):
    """evaluate phi natively on the concrete network; returns (native state set | ('err'|'panic', msg), spec state set, job)"""
    names = names or [f'v{i}' for i in range(n)]
    k = S.quant_depth(phi) if k is None else k
    job = {'op': 'mc', 'aeon': concrete_aeon(n, T, names), 'k': k,
           'context': {l: {'t': 'expr', 'e': dnf(names, st, n)} for l, st in sets.items()},
           'runs': [{'entry': entry, 'formulas': [S.show(phi)]}]}
    ans = front.native([job])[0]
    if 'fatal' in ans or 'fatal_panic' in ans: return ('fatal', ans), None, job
    run = ans['runs'][0]
    spec = concrete_spec(n, T, sets, phi, names, self_loops=(entry != 'unsafe_ex'))
    if 'ok' not in run: return (('err' if 'err' in run else 'panic'), run.get('err') or run.get('panic')), spec, job
    dec = uni.Decoded(ans)
    return states_of(dec, run['ok']), spec, job

def kernel_witness(lab, model, diffterm):
    """from a z3 model of a kernel-level counterexample: concrete network (one colour), concrete sets"""
    M = lab.M; n = lab.n
    diff = model.eval(diffterm, model_completion=True).as_long()
    if diff == 0: return None
    idx = (diff & -diff).bit_length() - 1
    col = M.colour_of(idx)
    T = {}
    for i in range(n):
        tv = model.eval(M.T[i], model_completion=True).as_long()
        for s in range(1 << n): T[(i, s)] = bool((tv >> ((col << n) | s)) & 1)
    sets = {}
    for name, x in lab.sets.items():
        xv = model.eval(x, model_completion=True).as_long()
        sets[name] = {s for s in range(1 << n) if (xv >> ((col << n) | s)) & 1} if lab.k == 0 else None
    valid = True
    if lab.U is not None:
        uv = model.eval(lab.U, model_completion=True).as_long(); valid = bool((uv >> col) & 1)
    return {'colour': col, 'T': T, 'sets': sets, 'colour_valid': valid, 'state': M.state_of(idx)}

def multi_colour_job(n, colours, texts, k, entry):
    """native job on a network with 2^c colours distinguished by zero-arity parameters g0..g{c-1}.
    colours: list (index = colour) of {'T': {(i,s): bool}, 'sets': {label: set(states)}}"""
    names = [f'v{i}' for i in range(n)]
    c = (len(colours) - 1).bit_length()
    def guard(col): return ' & '.join((f'g{b}' if (col >> b) & 1 else f'!g{b}') for b in range(c)) or 'true'
    lines = []
    for i in range(n):
        for j in range(n): lines.append(f'{names[j]} -?? {names[i]}')
        parts = []
        for col, cw in enumerate(colours):
            ones = [s for s in range(1 << n) if bool((s >> i) & 1) != bool(cw['T'][(i, s)])]
            parts.append(f'(({guard(col)}) & ({dnf(names, ones, n)}))' if c else f'({dnf(names, ones, n)})')
        lines.append(f'${names[i]}: ' + ' | '.join(parts))
    labels = sorted(set().union(*[set(cw['sets']) for cw in colours])) if colours else []
    context = {}
    for l in labels:
        alts = []
        for col, cw in enumerate(colours):
            st = {'t': 'expr', 'e': dnf(names, cw['sets'].get(l, set()), n)}
            gs = [{'t': 'param', 'name': f'g{b}'} if (col >> b) & 1 else {'t': 'not', 'a': {'t': 'param', 'name': f'g{b}'}} for b in range(c)]
            alts.append({'t': 'and', 'a': [st] + gs})
        context[l] = {'t': 'or', 'a': alts}
    return {'op': 'mc', 'aeon': '\n'.join(lines) + '\n', 'k': k, 'context': context, 'runs': [{'entry': entry, 'formulas': list(texts)}]}
