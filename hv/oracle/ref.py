"""Reference tokenizer / parser / printer for the documented HCTL grammar (DESIGN.md 3.6), written against the
`ask` API of a path context so that it runs on symbolic characters (product exploration with the real code).

Tokens: ('un', op) ('bin', op) ('hyb', op, name, dom|None) ('prop', name) ('var', name) ('wild', name) ('group', [tokens])
names are tuples of characters (ints or z3 bit-vectors).  Trees are the tuples of hv.oracle.sem with names as tuples.
"""
import z3

class Reject(Exception): pass

UN_KW = {'EX': 'EX', 'AX': 'AX', 'EF': 'EF', 'AF': 'AF', 'EG': 'EG', 'AG': 'AG'}
BIN_KW = {'EU': 'EU', 'AU': 'AU', 'EW': 'EW', 'AW': 'AW'}
LONG = {'exists': 'exists', 'forall': 'forall', 'bind': 'bind', 'jump': 'jump'}

class Lexer:
    def __init__(self, I, chars, extended):
        self.I, self.cs, self.i, self.ext = I, list(chars), 0, extended
    # character tests (may fork)
    def is_(self, c, ch):
        if isinstance(c, int): return c == ord(ch)
        return self.I.ctx.ask(c == z3.BitVecVal(ord(ch), 32))
    def ws(self, c): return self.I.truth(self.I.char_pred('ws', c))
    def name_char(self, c):
        r = self.I.char_pred('alnum', c)
        if r is True: return True
        if self.I.truth(r): return True
        return self.is_(c, '_')
    def eof(self): return self.i >= len(self.cs)
    def peek(self): return self.cs[self.i]
    def skip_ws(self):
        while not self.eof() and self.ws(self.peek()): self.i += 1
    def expect(self, ch):
        if self.eof() or not self.is_(self.peek(), ch): raise Reject(f'expected {ch!r}')
        self.i += 1
    def name(self):
        out = []
        while not self.eof() and self.name_char(self.peek()): out.append(self.peek()); self.i += 1
        return tuple(out)
    def name_is(self, name, kw):
        if len(name) != len(kw): return False
        for c, k in zip(name, kw):
            if not self.is_(c, k): return False
        return True
    def hybrid_tail(self, op):
        """after the operator symbol:  ws* '{' name '}' ws* [ 'in' ws* '%' name '%' ws* ] ':'"""
        self.skip_ws(); self.expect('{')
        nm = self.name()
        if not nm: raise Reject('empty variable name')
        self.expect('}'); self.skip_ws()
        dom = None
        if self.ext and op != 'jump' and not self.eof() and self.is_(self.peek(), 'i'):
            self.i += 1; self.expect('n'); self.skip_ws(); self.expect('%')
            dom = self.name()
            if not dom: raise Reject('empty domain name')
            self.expect('%'); self.skip_ws()
        self.expect(':')
        return ('hyb', op, nm, dom)
    def tokens(self, top=True):
        out = []
        while True:
            self.skip_ws()
            if self.eof():
                if top: return out
                raise Reject('missing )')
            c = self.peek()
            if self.is_(c, ')'):
                self.i += 1
                if top: raise Reject('unexpected )')
                return out
            if self.is_(c, '('): self.i += 1; out.append(('group', self.tokens(False))); continue
            if self.is_(c, '~'): self.i += 1; out.append(('un', 'not')); continue
            if self.is_(c, '&'): self.i += 1; out.append(('bin', 'and')); continue
            if self.is_(c, '|'): self.i += 1; out.append(('bin', 'or')); continue
            if self.is_(c, '^'): self.i += 1; out.append(('bin', 'xor')); continue
            if self.is_(c, '='): self.i += 1; self.expect('>'); out.append(('bin', 'imp')); continue
            if self.is_(c, '<'): self.i += 1; self.expect('='); self.expect('>'); out.append(('bin', 'iff')); continue
            if self.is_(c, '!'): self.i += 1; out.append(self.hybrid_tail('bind')); continue
            if self.is_(c, '@'): self.i += 1; out.append(self.hybrid_tail('jump')); continue
            if self.is_(c, '\\'):
                self.i += 1; kw = self.name()
                for k, op in LONG.items():
                    if self.name_is(kw, k): out.append(self.hybrid_tail(op)); break
                else: raise Reject('unknown long operator')
                continue
            if self.is_(c, '{'):
                self.i += 1; nm = self.name()
                if not nm: raise Reject('empty variable name')
                self.expect('}'); out.append(('var', nm)); continue
            if self.ext and self.is_(c, '%'):
                self.i += 1; nm = self.name()
                if not nm: raise Reject('empty wild-card name')
                self.expect('%'); out.append(('wild', nm)); continue
            if self.name_char(c):
                run = self.name()          # maximal run of name characters = one lexeme
                done = False
                for k, op in UN_KW.items():
                    if self.name_is(run, k): out.append(('un', op)); done = True; break
                if done: continue
                for k, op in BIN_KW.items():
                    if self.name_is(run, k): out.append(('bin', op)); done = True; break
                if done: continue
                if self.name_is(run, '3'): out.append(self.hybrid_tail('exists')); continue
                if self.name_is(run, 'V'): out.append(self.hybrid_tail('forall')); continue
                out.append(('prop', run)); continue
            raise Reject('unexpected character')

def tokenize(I, chars, extended):
    """token list, or raises Reject"""
    return Lexer(I, chars, extended).tokens(True)

# ------------------------------------------------------------------ parser (precedence climbing, right-associative)
LEVELS = [['iff'], ['imp'], ['or'], ['xor'], ['and'], ['EU', 'AU', 'EW', 'AW']]

class Parser:
    def __init__(self, I, toks): self.I, self.t, self.i = I, toks, 0
    def eof(self): return self.i >= len(self.t)
    def formula(self):
        if not self.eof() and self.t[self.i][0] == 'hyb':
            _, op, nm, dom = self.t[self.i]; self.i += 1
            body = self.formula()
            return ('jump', nm, body) if op == 'jump' else (op, nm, dom, body)
        return self.level(0)
    def level(self, l):
        if l == len(LEVELS): return self.unary()
        left = self.level(l + 1)
        if not self.eof() and self.t[self.i][0] == 'bin' and self.t[self.i][1] in LEVELS[l]:
            op = self.t[self.i][1]; self.i += 1
            right = self.level(l)
            return (op, left, right)
        return left
    def unary(self):
        if self.eof(): raise Reject('expected formula')
        k = self.t[self.i]
        if k[0] == 'un':
            self.i += 1; return (k[1], self.unary())
        self.i += 1
        if k[0] == 'prop':
            lx = Lexer(self.I, (), False)
            for kw in ('true', 'True', '1'):
                if lx.name_is(k[1], kw): return ('true',)
            for kw in ('false', 'False', '0'):
                if lx.name_is(k[1], kw): return ('false',)
            return ('prop', k[1])
        if k[0] in ('var', 'wild'): return (k[0], k[1])
        if k[0] == 'group':
            p = Parser(self.I, k[1]); r = p.formula()
            if not p.eof(): raise Reject('trailing tokens in group')
            return r
        raise Reject('expected formula')

def parse_tokens(I, toks):
    p = Parser(I, toks); r = p.formula()
    if not p.eof(): raise Reject('trailing tokens')
    return r

def parse(I, chars, extended): return parse_tokens(I, tokenize(I, chars, extended))

def count_tokens(toks): return sum(count_tokens(t[1]) if t[0] == 'group' else 1 for t in toks)
def count_nodes(phi):
    op = phi[0]
    if op in ('true', 'false', 'prop', 'var', 'wild'): return 1
    if op == 'jump': return 1 + count_nodes(phi[2])
    if op in ('bind', 'exists', 'forall'): return 1 + count_nodes(phi[3])
    return 1 + sum(count_nodes(c) for c in phi[1:])

# ------------------------------------------------------------------ canonical printer / height
SYM = {'and': '&', 'or': '|', 'xor': '^', 'imp': '=>', 'iff': '<=>'}
HSYM = {'bind': '!', 'exists': '3', 'forall': 'V', 'jump': '@'}
def o(s): return [ord(c) for c in s]
def render(phi):
    """canonical fully parenthesised text as a list of characters (names may contain symbolic characters)"""
    op = phi[0]
    if op == 'true': return o('True')
    if op == 'false': return o('False')
    if op == 'prop': return list(phi[1])
    if op == 'var': return o('{') + list(phi[1]) + o('}')
    if op == 'wild': return o('%') + list(phi[1]) + o('%')
    if op == 'not': return o('(~') + render(phi[1]) + o(')')
    if op in UN_KW: return o('(' + op + ' ') + render(phi[1]) + o(')')
    if op in SYM: return o('(') + render(phi[1]) + o(' ' + SYM[op] + ' ') + render(phi[2]) + o(')')
    if op in BIN_KW: return o('(') + render(phi[1]) + o(' ' + op + ' ') + render(phi[2]) + o(')')
    if op == 'jump': return o('(@{') + list(phi[1]) + o('}: ') + render(phi[2]) + o(')')
    d = [] if phi[2] is None else o(' in %') + list(phi[2]) + o('%')
    return o('(' + HSYM[op] + '{') + list(phi[1]) + o('}') + d + o(': ') + render(phi[3]) + o(')')
def height(phi):
    op = phi[0]
    if op in ('true', 'false', 'prop', 'var', 'wild'): return 0
    if op == 'jump': return 1 + height(phi[2])
    if op in ('bind', 'exists', 'forall'): return 1 + height(phi[3])
    return 1 + max(height(c) for c in phi[1:])

# ------------------------------------------------------------------ structural equality of trees with symbolic names
def tree_eq(I, a, b):
    """z3 Bool / python bool: the two trees are equal (names compared characterwise)"""
    if a[0] != b[0] or len(a) != len(b): return False
    conds = []
    for x, y in zip(a[1:], b[1:]):
        if isinstance(x, tuple) and x and isinstance(x[0], str):     # subtree
            r = tree_eq(I, x, y)
        elif x is None or y is None: r = x is None and y is None
        else:   # name: tuple of chars
            if len(x) != len(y): r = False
            else:
                cs = []
                r = True
                for c, d in zip(x, y):
                    if isinstance(c, int) and isinstance(d, int):
                        if c != d: r = False; break
                    else: cs.append((c if z3.is_expr(c) else z3.BitVecVal(c, 32)) == (d if z3.is_expr(d) else z3.BitVecVal(d, 32)))
                if r is True and cs: r = z3.And(cs)
        if r is False: return False
        if r is not True: conds.append(r)
    return z3.And(conds) if conds else True

def tokens_eq(I, a, b):
    if len(a) != len(b): return False
    conds = []
    for x, y in zip(a, b):
        if x[0] != y[0]: return False
        if x[0] == 'group': r = tokens_eq(I, x[1], y[1])
        elif x[0] in ('un', 'bin'): r = x[1] == y[1]
        elif x[0] == 'hyb':
            if x[1] != y[1]: return False
            r = tree_eq(I, ('n', x[2], x[3]) if x[3] is not None else ('n', x[2]), ('n', y[2], y[3]) if y[3] is not None else ('n', y[2]))
        else: r = tree_eq(I, ('n', x[1]), ('n', y[1]))
        if r is False: return False
        if r is not True: conds.append(r)
    return z3.And(conds) if conds else True
