"""Formula families (the one enumerated dimension).  Closed formulas over the plain / extended operator set."""
from . import sem as S

UN = ['not', 'EX', 'AX', 'EF', 'AF', 'EG', 'AG']
BIN = ['and', 'or', 'xor', 'imp', 'iff', 'EU', 'AU', 'EW', 'AW']
VARNAMES = ['x', 'xx', 'xxx', 'xxxx']

def random_formula(rng, depth, props, scope=(), wild=(), doms=(), max_vars=3, ops_un=UN, ops_bin=BIN, hybrid=True, p_leaf=0.25):
    """closed relative to `scope`; variables are named by nesting depth (x, xx, xxx) like preprocessed trees"""
    def leaf():
        ch = []
        ch += [('prop', p) for p in props]
        ch += [('var', v) for v in scope] * 2
        ch += [('wild', w) for w in wild]
        ch += [('true',), ('false',)] if rng.random() < 0.15 else []
        return rng.choice(ch)
    if depth <= 0 or (depth < 3 and rng.random() < p_leaf): return leaf()
    r = rng.random()
    if hybrid and r < 0.3:
        if scope and rng.random() < 0.35:
            return ('jump', rng.choice(list(scope)), random_formula(rng, depth - 1, props, scope, wild, doms, max_vars, ops_un, ops_bin, hybrid, p_leaf))
        if len(scope) < max_vars:
            v = VARNAMES[len(scope)]
            q = rng.choice(['bind', 'exists', 'forall'])
            d = rng.choice(list(doms)) if doms and rng.random() < 0.6 else None
            return (q, v, d, random_formula(rng, depth - 1, props, tuple(scope) + (v,), wild, doms, max_vars, ops_un, ops_bin, hybrid, p_leaf))
    if r < 0.65:
        return (rng.choice(ops_un), random_formula(rng, depth - 1, props, scope, wild, doms, max_vars, ops_un, ops_bin, hybrid, p_leaf))
    op = rng.choice(ops_bin)
    return (op, random_formula(rng, depth - 1, props, scope, wild, doms, max_vars, ops_un, ops_bin, hybrid, p_leaf),
            random_formula(rng, depth - 1, props, scope, wild, doms, max_vars, ops_un, ops_bin, hybrid, p_leaf))

def core_plain(props):
    """fixed core: every operator at least once, on leaves that make children depend on state and on the variable"""
    p0, p1 = ('prop', props[0]), ('prop', props[-1])
    X, XX = ('var', 'x'), ('var', 'xx')
    out = [p0, ('not', p0), ('true',), ('false',)]
    for u in UN: out.append((u, p0))
    for b in BIN: out.append((b, p0, p1))
    for q in ('bind', 'exists', 'forall'):
        out.append((q, 'x', None, ('and', X, p0)))
        out.append((q, 'x', None, ('EX', X)))
        out.append((q, 'x', None, ('AF', ('or', X, p1))))
    out.append(('exists', 'x', None, ('jump', 'x', ('and', p0, ('AX', X)))))
    out.append(('forall', 'x', None, ('jump', 'x', ('EF', ('and', X, p1)))))
    out.append(('bind', 'x', None, ('exists', 'xx', None, ('and', ('jump', 'x', ('and', ('not', XX), ('AX', X))), ('jump', 'xx', ('AX', XX))))))
    out.append(('bind', 'x', None, ('AG', ('EF', X))))
    out.append(('bind', 'x', None, ('AX', X)))
    out.append(('exists', 'x', None, ('forall', 'xx', None, ('bind', 'xxx', None, ('or', ('EU', X, XX), ('jump', 'xx', ('EX', ('var', 'xxx'))))))))
    for u in UN:
        out.append(('bind', 'x', None, (u, ('and', X, p0)) if u != 'not' else ('not', X)))
    for b in BIN:
        out.append(('bind', 'x', None, (b, ('or', X, p0), ('EX', X))))
    return out

def siblings(props):
    """formulas whose quantifiers are siblings (more quantifier occurrences than nesting depth)"""
    p0, p1 = ('prop', props[0]), ('prop', props[-1])
    X, XX = ('var', 'x'), ('var', 'xx')
    return [('or', ('bind', 'x', None, ('AX', X)), ('bind', 'x', None, ('AG', ('EF', ('and', X, p0))))),
            ('and', ('exists', 'x', None, ('jump', 'x', p0)), ('forall', 'x', None, ('EF', X))),
            ('EU', ('bind', 'x', None, ('EX', X)), ('exists', 'x', None, ('and', X, p1))),
            ('or', ('or', ('bind', 'x', None, ('EX', ('not', X))), ('forall', 'x', None, ('or', X, p0))), ('exists', 'x', None, ('jump', 'x', ('AX', X)))),
            ('bind', 'x', None, ('and', ('exists', 'xx', None, ('jump', 'xx', ('EX', X))), ('forall', 'xx', None, ('or', ('EF', XX), X)))),
            ('imp', ('bind', 'x', None, ('AX', X)), ('bind', 'x', None, ('AX', X)))]

def operand_pairs(ops=('EU', 'AW'), props=('v0', 'v1')):
    """binary temporal operators over every ordered pair of distinct conjunctions of literals: operands that partition the
    state space along a variable, steady states satisfying one operand only, branching states that see both"""
    P0, P1 = ('prop', props[0]), ('prop', props[1])
    N0, N1 = ('not', P0), ('not', P1)
    A = [P0, N0, P1, N1, ('and', P0, P1), ('and', N0, P1), ('and', P0, N1), ('and', N0, N1)]
    return [(b, l, r) for b in ops for l in A for r in A if l != r]

def unary_pairs(props):
    """every unary operator applied directly to every unary operator (EX EX p is not EX p; idempotence holds for some only)"""
    p0 = ('prop', props[0])
    return [(a, (b, p0)) for a in UN for b in UN]

def temporal_over_binders(props):
    """a unary temporal operator applied directly to a binder whose body looks at the state only through jumps"""
    p1 = ('prop', props[-1]); X, XX = ('var', 'x'), ('var', 'xx')
    bodies = [('bind', 'x', None, ('jump', 'x', ('AX', X))), ('bind', 'x', None, ('exists', 'xx', None, ('and', ('jump', 'x', ('EX', XX)), ('jump', 'xx', p1)))),
              ('bind', 'x', None, ('jump', 'x', ('EF', ('and', X, p1)))), ('exists', 'x', None, ('jump', 'x', ('EX', p1)))]
    return [(u, b) for u in ('EX', 'AX', 'EF', 'AF', 'EG', 'AG') for b in bodies]

def swapped_duplicates():
    """sub-formulas with two free variables that are equal up to a swap of the variables (plain, <= 3 nested variables)"""
    X, XX, XXX = ('var', 'x'), ('var', 'xx'), ('var', 'xxx')
    out = []
    for mk in (lambda a, b: ('jump', a, ('EF', ('var', b))), lambda a, b: ('jump', a, ('EX', ('EX', ('var', b)))), lambda a, b: ('EU', ('var', a), ('var', b))):
        out.append(('exists', 'x', None, ('exists', 'xx', None, ('and', mk('x', 'xx'), ('not', mk('xx', 'x'))))))
        out.append(('bind', 'x', None, ('exists', 'xx', None, ('exists', 'xxx', None, ('and', ('and', mk('x', 'xxx'), mk('xx', 'xxx')), ('and', ('jump', 'x', ('not', XX)), mk('xxx', 'x')))))))
    # one-variable duplicates whose value depends on SOME components of the variable only (@{x}: v0 looks at v0 of x)
    p0, p1 = ('prop', 'v0'), ('prop', 'v1')
    for body in (lambda v: ('jump', v, p0), lambda v: ('jump', v, ('and', p1, ('EX', p0))), lambda v: ('EX', ('jump', v, ('not', p1)))):
        out.append(('exists', 'x', None, ('exists', 'xx', None, ('and', body('x'), ('not', body('xx'))))))
        out.append(('and', ('exists', 'x', None, ('and', body('x'), X)), ('exists', 'x', None, ('exists', 'xx', None, ('and', ('and', ('EX', X), XX), body('xx'))))))
    return out

def subformulas(phi):
    yield phi
    op = phi[0]
    if op in S.QUANT: yield from subformulas(phi[3])
    elif op == 'jump': yield from subformulas(phi[2])
    elif op not in ('true', 'false', 'prop', 'var', 'wild'):
        for c in phi[1:]: yield from subformulas(c)

def replace(phi, path, new):
    """replace the sub-formula at `path` (tuple of child indices)"""
    if not path: return new
    l = list(phi); l[path[0]] = replace(phi[path[0]], path[1:], new)
    return tuple(l)

def positions(phi, path=()):
    yield path, phi
    op = phi[0]
    if op in S.QUANT: yield from positions(phi[3], path + (3,))
    elif op == 'jump': yield from positions(phi[2], path + (2,))
    elif op not in ('true', 'false', 'prop', 'var', 'wild'):
        for i, c in enumerate(phi[1:], 1): yield from positions(c, path + (i,))

# ------------------------------------------------------------------ bounded-exhaustive enumeration of small formulas
def enumerate_formulas(size, scope=(), props=('v0',), wild=('w',), doms=(None, 'd'), un=('not', 'EX', 'AG', 'EF'), bins=('and', 'EU'), quants=('bind', 'exists', 'forall'), jump=True):
    """every formula with exactly `size` nodes over the given (reduced) alphabet; variables named by depth; closed w.r.t. scope"""
    scope = tuple(scope)
    if size == 1:
        for p in props: yield ('prop', p)
        for w in wild: yield ('wild', w)
        for v in scope: yield ('var', v)
        return
    for u in un:
        for a in enumerate_formulas(size - 1, scope, props, wild, doms, un, bins, quants, jump): yield (u, a)
    for b in bins:
        for k in range(1, size - 1):
            for l in enumerate_formulas(k, scope, props, wild, doms, un, bins, quants, jump):
                for r in enumerate_formulas(size - 1 - k, scope, props, wild, doms, un, bins, quants, jump): yield (b, l, r)
    if len(scope) < 3:
        v = VARNAMES[len(scope)]
        for q in quants:
            for d in doms:
                for a in enumerate_formulas(size - 1, scope + (v,), props, wild, doms, un, bins, quants, jump): yield (q, v, d, a)
    if jump:
        for v in scope:
            for a in enumerate_formulas(size - 1, scope, props, wild, doms, un, bins, quants, jump): yield ('jump', v, a)

def sample_small(rng, count, sizes=(3, 4, 5), **kw):
    """seed-chosen sample of the bounded-exhaustive space (reservoir sampling per size)"""
    out = []
    per = max(1, count // len(sizes))
    for sz in sizes:
        res = []
        for i, f in enumerate(enumerate_formulas(sz, **kw)):
            if len(res) < per: res.append(f)
            else:
                j = rng.randrange(i + 1)
                if j < per: res[j] = f
        out += res
    return out
