"""Independent explicit-state HCTL semantics over a symbolic transition relation (DESIGN.md 3.6).

Formulas are tuples:
  ('true',) ('false',) ('prop', name) ('var', name) ('wild', label)
  ('not', a) ('and'|'or'|'xor'|'imp'|'iff', a, b)
  ('EX'|'AX'|'EF'|'AF'|'EG'|'AG', a)  ('EU'|'AU'|'EW'|'AW', a, b)
  ('bind'|'exists'|'forall', var, dom_or_None, a)  ('jump', var, a)

The semantics is evaluated for ONE generic colour; every truth value is a z3 Bool term over whatever variables the
`Kripke` object uses for the colour (parameter variables in E-UNI, bits of T in E-MIR).
A state without outgoing transitions carries a self-loop.
"""
import z3

UN_T = ('EX', 'AX', 'EF', 'AF', 'EG', 'AG')
BIN_T = ('EU', 'AU', 'EW', 'AW')
BIN_B = ('and', 'or', 'xor', 'imp', 'iff')
QUANT = ('bind', 'exists', 'forall')

TRUE, FALSE = z3.BoolVal(True), z3.BoolVal(False)

def And(*xs):
    xs = [x for x in xs if not z3.is_true(x)]
    if any(z3.is_false(x) for x in xs): return FALSE
    if not xs: return TRUE
    return xs[0] if len(xs) == 1 else z3.And(*xs)
def Or(*xs):
    xs = [x for x in xs if not z3.is_false(x)]
    if any(z3.is_true(x) for x in xs): return TRUE
    if not xs: return FALSE
    return xs[0] if len(xs) == 1 else z3.Or(*xs)
def Not(x):
    if z3.is_true(x): return FALSE
    if z3.is_false(x): return TRUE
    return z3.Not(x)

class Kripke:
    """n Boolean variables; states are ints 0..2^n-1 (bit i = variable i).
    trans(i, s) -> z3 Bool: variable i can be updated in state s (for the generic colour).
    prop(name, s) -> python bool ; wild(label, s) -> z3 Bool"""
    def __init__(self, n, names, trans, wild=None, self_loops=True):
        self.n, self.names, self.trans, self.wild_fn = n, list(names), trans, wild
        self.states = list(range(1 << n))
        self._succ = {}
        self.self_loops = self_loops
    def succs(self, s):
        if s not in self._succ:
            out = [(self.trans(i, s), s ^ (1 << i)) for i in range(self.n)]
            if self.self_loops:
                out.append((And(*[Not(g) for g, _ in out]), s))
            self._succ[s] = out
        return self._succ[s]
    def prop(self, name, s): return bool((s >> self.names.index(name)) & 1)
    def wild(self, label, s): return self.wild_fn(label, s)

def sem(K, phi, env=None, memo=None):
    """dict state -> z3 Bool"""
    S = K.states
    env = env or {}
    memo = {} if memo is None else memo
    def ex(a): return {s: Or(*[And(g, a[t]) for g, t in K.succs(s)]) for s in S}
    def ax(a): return {s: And(*[Or(Not(g), a[t]) for g, t in K.succs(s)]) for s in S}
    def fix(f, init):
        x = {s: init for s in S}
        for _ in S: x = f(x)
        return x
    def simp(d): return {s: z3.simplify(v) for s, v in d.items()}
    def go(phi, env):
        fv = tuple(sorted((v, env[v]) for v in free_vars(phi)))
        key = (phi, fv)
        if key in memo: return memo[key]
        r = go1(phi, env); memo[key] = r
        return r
    def go1(phi, env):
        op = phi[0]
        if op == 'true': return {s: TRUE for s in S}
        if op == 'false': return {s: FALSE for s in S}
        if op == 'var': return {s: z3.BoolVal(s == env[phi[1]]) for s in S}
        if op == 'prop': return {s: z3.BoolVal(K.prop(phi[1], s)) for s in S}
        if op == 'wild': return {s: K.wild(phi[1], s) for s in S}
        if op == 'not': a = go(phi[1], env); return {s: Not(a[s]) for s in S}
        if op in BIN_B:
            a, b = go(phi[1], env), go(phi[2], env)
            f = {'and': And, 'or': Or, 'imp': lambda x, y: Or(Not(x), y),
                 'iff': lambda x, y: x == y, 'xor': lambda x, y: z3.Xor(x, y)}[op]
            return {s: f(a[s], b[s]) for s in S}
        if op == 'EX': return ex(go(phi[1], env))
        if op == 'AX': return ax(go(phi[1], env))
        if op == 'EF': a = go(phi[1], env); return simp(fix(lambda z: {s: Or(a[s], ex(z)[s]) for s in S}, FALSE))
        if op == 'AF': a = go(phi[1], env); return simp(fix(lambda z: {s: Or(a[s], ax(z)[s]) for s in S}, FALSE))
        if op == 'EG': a = go(phi[1], env); return simp(fix(lambda z: {s: And(a[s], ex(z)[s]) for s in S}, TRUE))
        if op == 'AG': a = go(phi[1], env); return simp(fix(lambda z: {s: And(a[s], ax(z)[s]) for s in S}, TRUE))
        if op in BIN_T:
            a, b = go(phi[1], env), go(phi[2], env)
            eu = lambda a, b: fix(lambda z: {s: Or(b[s], And(a[s], ex(z)[s])) for s in S}, FALSE)
            if op == 'EU': return simp(eu(a, b))
            if op == 'AU': return simp(fix(lambda z: {s: Or(b[s], And(a[s], ax(z)[s])) for s in S}, FALSE))
            if op == 'EW':   # E[a U b] or EG a
                u = eu(a, b); g = fix(lambda z: {s: And(a[s], ex(z)[s]) for s in S}, TRUE)
                return simp({s: Or(u[s], g[s]) for s in S})
            if op == 'AW':   # not E[not b U (not a and not b)]
                na = {s: Not(a[s]) for s in S}; nb = {s: Not(b[s]) for s in S}
                u = eu(nb, {s: And(na[s], nb[s]) for s in S})
                return simp({s: Not(u[s]) for s in S})
        if op in QUANT:
            var, dom, body = phi[1], phi[2], phi[3]
            ind = (lambda t: K.wild(dom, t)) if dom is not None else (lambda t: TRUE)
            if op == 'bind':
                return {s: And(ind(s), go(body, {**env, var: s})[s]) for s in S}
            subs = {t: go(body, {**env, var: t}) for t in S}
            if op == 'exists': return {s: Or(*[And(ind(t), subs[t][s]) for t in S]) for s in S}
            return {s: And(*[Or(Not(ind(t)), subs[t][s]) for t in S]) for s in S}
        if op == 'jump':
            a = go(phi[2], env); return {s: a[env[phi[1]]] for s in S}
        raise KeyError(op)
    return go(phi, env)

_fv_cache = {}
def free_vars(phi):
    if phi in _fv_cache: return _fv_cache[phi]
    op = phi[0]
    if op == 'var': r = frozenset([phi[1]])
    elif op in ('true', 'false', 'prop', 'wild'): r = frozenset()
    elif op in QUANT: r = free_vars(phi[3]) - {phi[1]}
    elif op == 'jump': r = free_vars(phi[2]) | {phi[1]}
    else:
        r = frozenset()
        for c in phi[1:]: r = r | free_vars(c)
    _fv_cache[phi] = r
    return r

# ------------------------------------------------------------------ printing in the tool's concrete syntax
SYM = {'and': '&', 'or': '|', 'xor': '^', 'imp': '=>', 'iff': '<=>'}
HSYM = {'bind': '!', 'exists': '3', 'forall': 'V', 'jump': '@'}
def show(phi):
    """fully parenthesised text accepted by the tool's parser (also by the plain parser if no wild-cards/domains)"""
    op = phi[0]
    if op == 'true': return 'true'
    if op == 'false': return 'false'
    if op == 'prop': return phi[1]
    if op == 'var': return '{' + phi[1] + '}'
    if op == 'wild': return '%' + phi[1] + '%'
    if op == 'not': return '(~' + show(phi[1]) + ')'
    if op in UN_T: return '(' + op + ' ' + show(phi[1]) + ')'
    if op in BIN_B: return '(' + show(phi[1]) + ' ' + SYM[op] + ' ' + show(phi[2]) + ')'
    if op in BIN_T: return '(' + show(phi[1]) + ' ' + op + ' ' + show(phi[2]) + ')'
    if op in QUANT:
        d = '' if phi[2] is None else ' in %' + phi[2] + '%'
        return '(' + HSYM[op] + '{' + phi[1] + '}' + d + ': ' + show(phi[3]) + ')'
    if op == 'jump': return '(@{' + phi[1] + '}: ' + show(phi[2]) + ')'
    raise KeyError(op)

def distinct_names(phi, pool=None):
    """the same formula with a different user-given name for every quantifier occurrence (siblings no longer share names):
    more distinct names than nesting depth -- only preprocessing brings them back to one name per depth"""
    pool = pool or ['y', 'z', 'w', 'yy', 'zz', 'ww', 'y1', 'z1', 'w1', 'y2', 'z2', 'w2']
    cnt = [0]
    def go(f, m):
        op = f[0]
        if op == 'var': return ('var', m.get(f[1], f[1]))
        if op in ('true', 'false', 'prop', 'wild'): return f
        if op == 'jump': return ('jump', m.get(f[1], f[1]), go(f[2], m))
        if op in QUANT:
            nm = pool[cnt[0] % len(pool)] + ('' if cnt[0] < len(pool) else str(cnt[0])); cnt[0] += 1
            return (op, nm, f[2], go(f[3], {**m, f[1]: nm}))
        return (op,) + tuple(go(c, m) for c in f[1:])
    return go(phi, {})

def normalise(phi):
    """a closed formula with its quantifiers renamed by relative nesting depth (x, xx, ...): equal for alpha-equal occurrences
    of one closed sub-formula that sit at different absolute depths of a preprocessed tree"""
    def go(f, m, d):
        op = f[0]
        if op == 'var': return ('var', m.get(f[1], f[1]))
        if op in ('true', 'false', 'prop', 'wild'): return f
        if op == 'jump': return ('jump', m.get(f[1], f[1]), go(f[2], m, d))
        if op in QUANT:
            nm = 'x' * (d + 1)
            return (op, nm, f[2], go(f[3], {**m, f[1]: nm}, d + 1))
        return (op,) + tuple(go(c, m, d) for c in f[1:])
    return go(phi, {}, 0)

def count_quant(phi):
    op = phi[0]
    if op in ('true', 'false', 'prop', 'var', 'wild'): return 0
    if op in QUANT: return 1 + count_quant(phi[3])
    if op == 'jump': return count_quant(phi[2])
    return sum(count_quant(c) for c in phi[1:])

def depth(phi):
    op = phi[0]
    if op in ('true', 'false', 'prop', 'var', 'wild'): return 0
    if op in QUANT: return 1 + depth(phi[3])
    if op == 'jump': return 1 + depth(phi[2])
    return 1 + max(depth(c) for c in phi[1:])

def quant_depth(phi):
    """maximal nesting depth of quantifiers = number of symbolic variable sets needed"""
    op = phi[0]
    if op in ('true', 'false', 'prop', 'var', 'wild'): return 0
    if op in QUANT: return 1 + quant_depth(phi[3])
    if op == 'jump': return quant_depth(phi[2])
    return max(quant_depth(c) for c in phi[1:])

def labels(phi):
    """(wild-card proposition labels, domain labels)"""
    op = phi[0]
    if op == 'wild': return {phi[1]}, set()
    if op in ('true', 'false', 'prop', 'var'): return set(), set()
    if op in QUANT:
        p, d = labels(phi[3])
        return p, (d | {phi[2]} if phi[2] is not None else d)
    if op == 'jump': return labels(phi[2])
    p, d = set(), set()
    for c in phi[1:]:
        a, b = labels(c); p |= a; d |= b
    return p, d

def ops_used(phi):
    op = phi[0]
    if op in ('true', 'false', 'prop', 'var', 'wild'): return set()
    if op in QUANT: return {op} | ops_used(phi[3])
    if op == 'jump': return {op} | ops_used(phi[2])
    r = {op}
    for c in phi[1:]: r |= ops_used(c)
    return r
