"""./check <ID> --replay <file>: re-run the native part of a recorded violation against the current working tree.
Exit 1 (and a VIOLATION line) if it still reproduces, 0 if the current tree behaves correctly on that input."""
import json
from . import front, replay as RP
from .oracle import sem as S

def _ast(x):
    if isinstance(x, list): return tuple(_ast(y) for y in x)
    return x

def run(pid, d):
    r = d['replay']; diffs = []
    if 'text' in r and 'k' in r and 'present' in r:
        from .props import c14; diffs = c14.replay(r['text'], r['k'], r['present'])
    elif 'base' in r and 'text' in r:
        from .props import c08; diffs = c08.native_same_tree(r['base'], r['text'])
    elif 'text' in r:
        from .props import c05; diffs = c05.native_vs_reference(r['text'])
    elif 'trees' in r:
        from .props import c09
        diffs = c09.native_dups(r['trees']) if d.get('signature') == 'dups' else c09.native_canon(r['trees'])
    elif 'tree' in r:
        from .props import c06, c07
        diffs = c07.native_rename(r['tree']) if pid == 'C07' or d.get('signature', '').startswith(('rename', 'preprocessing')) else c06.native_roundtrip(r['tree'])
    elif 'aeon' in r and 'failures' in r:
        from . import convlab as CL
        b = CL.run_binary(r['aeon']); info = front.native([{'op': 'netinfo', 'aeon': r['aeon']}])[0]
        if b[0] != 'ok': diffs = ['the converter binary fails: ' + str(b[1])[:200]]
        else:
            from .props import c19
            fo, consts = CL.parse_bnet(b[1], info['vars']); targets = c19.targets_of(info)
            class _C: queries = 0; solver_s = 0.0
            diffs = c19.check_family(_C, '', info, {info['vars'].index(k): v for k, v in fo.items() if k in info['vars']}, [(c, 0) for c in consts], targets, 'binary', r['aeon'], None)
    elif 'law' in r and 'witness' in r:
        from . import kernels as KL
        w = r['witness']; T = {(int(k.split(',')[0]), int(k.split(',')[1])): v for k, v in w['T'].items()}
        n = max(i for i, _ in T) + 1
        law = tuple([r['law'][0]] + [_ast(x) for x in r.get('law_ast', [])]) if r.get('law_ast') else None
        if law is None: print('replay file predates AST recording'); return 2
        res = KL.native_law(n, T, {k: set(v) for k, v in w['sets'].items()}, law)
        diffs = [res['what']] if res['violated'] else []
    elif 'phi' in r and 'instantiated_network' in r:
        phi = _ast(r['phi'])
        job = {'op': 'mc', 'aeon': r['instantiated_network'], 'k': S.quant_depth(phi), 'context': {l: {'t': 'expr', 'e': RP.dnf([f'v{i}' for i in range(r['n'])], st, r['n'])} for l, st in r['instantiated_sets'].items()},
               'runs': [{'entry': 'ext_dirty', 'formulas': [S.show(phi)]}]}
        ans = front.native([job])[0]; run_ = ans['runs'][0]
        from . import uni
        if 'ok' not in run_: diffs = [f'native run fails: {run_}']
        else:
            nat = RP.states_of(uni.Decoded(ans), run_['ok'])
            if nat != set(r['explicit_states']): diffs = [f"{S.show(phi)} on the instantiated network: native {sorted(nat)}{' (depends on auxiliary variables)' if nat.depends else ''}, explicit semantics {r['explicit_states']}"]
    elif 'task' in r and 'witness' in r and 'phis' in r:
        from . import evaltasks as ET
        task = dict(r['task']); task['phis'] = [_ast(x) for x in r['phis']]
        n, T, sets = ET._concrete(task, r['witness'])
        res = ET.native_batch(n, T, sets, task['phis'], task['k'], {'multi_ext_dirty': 'ext_multi_dirty', 'multi_ext': 'ext_multi'}.get(task['entry'], 'ext_multi_dirty'), task.get('texts'), ctx_formulas={k: _ast(v) for k, v in (task.get('ctx_formulas') or {}).items()} or None)
        i = r.get('position', 0)
        if res['error'] or res['native'][i] != res['spec'][i]: diffs = [f"position {i}: native {res['native'][i] if not res['error'] else res['error']} but explicit semantics {res['spec'][i]}"]
    elif 'job' in r:
        ans = front.native([r['job']])[0]; run_ = (ans.get('runs') or [{}])[0]
        if 'panic' in run_ or 'fatal_panic' in ans: diffs = ['the entry point panics natively: ' + str(run_.get('panic') or ans.get('fatal_panic'))]
        elif d.get('signature') == 'error-on-valid-input' and 'err' in run_: diffs = ['valid input answered with an error: ' + run_['err']]
    else:
        print('this replay file has no native re-execution recipe; what was recorded:', d.get('what')); return 2
    if diffs:
        print(f'VIOLATION property={pid} replay=(re-executed) ' + '; '.join(diffs)[:600]); return 1
    print(f'[{pid}] replay: the current tree behaves correctly on the recorded input'); return 0
