"""Front end: snapshot of /repo's working tree, MIR dumps (nightly), native helper build.  DESIGN.md 3.1"""
import os, sys, subprocess, hashlib, shutil, time, json, atexit, tempfile

REPO = os.environ.get('HV_REPO', '/repo')
VERIF = os.path.dirname(os.path.dirname(os.path.abspath(__file__)))
CACHE = os.path.join(VERIF, '.cache')
ENV = dict(os.environ, CARGO_NET_OFFLINE='true')
_scratch = None

def scratch():
    global _scratch
    if _scratch is None:
        base = os.environ.get('HCTL_VERIF_SCRATCH') or '/var/tmp'
        os.makedirs(base, exist_ok=True)
        _scratch = tempfile.mkdtemp(prefix='hctl-verif.', dir=base)
        atexit.register(lambda: shutil.rmtree(_scratch, ignore_errors=True))
    return _scratch

def tree_files():
    out = []
    for root, dirs, files in os.walk(os.path.join(REPO, 'src')):
        dirs.sort()
        for f in sorted(files):
            out.append(os.path.join(root, f))
    for f in ('Cargo.toml', 'Cargo.lock'):
        out.append(os.path.join(REPO, f))
    return out

def tree_hash():
    h = hashlib.sha256()
    for p in tree_files():
        h.update(os.path.relpath(p, REPO).encode()); h.update(b'\0')
        h.update(open(p, 'rb').read()); h.update(b'\0')
    return h.hexdigest()[:20]

def snapshot():
    d = os.path.join(scratch(), 'snap')
    if os.path.isdir(d): return d
    os.makedirs(d)
    subprocess.check_call(['rsync', '-a', '--exclude', 'target', '--exclude', '.git', '--exclude', 'benchmark_models',
                           REPO + '/', d + '/'])
    return d

class FrontError(Exception): pass

def mir(kind='lib'):
    """Return (path of MIR dump of the current working tree, info dict).  kind: 'lib' | 'bin'"""
    h = tree_hash()
    d = os.path.join(CACHE, 'mir', h); os.makedirs(d, exist_ok=True)
    out = os.path.join(d, kind + '.mir')
    info = {'tree_hash': h, 'cached': True}
    if not (os.path.exists(out) and os.path.getsize(out) > 1000):
        t = time.time()
        snap = snapshot()
        tgt = ['--lib'] if kind == 'lib' else ['--bin', 'convert-aeon-to-bnet']
        cmd = ['cargo', '+nightly', 'rustc', '--offline'] + tgt + ['--', '-Zunpretty=mir', '-C', 'debug-assertions=off',
               '-C', 'overflow-checks=on']
        env = dict(ENV, CARGO_TARGET_DIR=os.path.join(CACHE, 'target-mir'))
        # touch so that cargo re-runs rustc for the crate even when the fingerprint is unchanged
        os.utime(os.path.join(snap, 'src', 'lib.rs'), None)
        p = subprocess.run(cmd, cwd=snap, env=env, stdout=subprocess.PIPE, stderr=subprocess.PIPE, text=True)
        if p.returncode != 0 or len(p.stdout) < 1000:
            raise FrontError('MIR dump failed (does the tree compile?):\n' + p.stderr[-3000:])
        tmp = out + '.tmp%d' % os.getpid()
        open(tmp, 'w').write(p.stdout); os.replace(tmp, out)
        info['cached'] = False; info['mir_dump_s'] = round(time.time() - t, 1)
    info['mir_lines'] = sum(1 for _ in open(out))
    return out, info

def build_native():
    """(Re)build hv-native and the converter binary against /repo's working tree; returns dict of paths."""
    tdir = _native_target()
    env = dict(ENV, CARGO_TARGET_DIR=tdir)
    t = time.time()
    src = os.path.join(VERIF, 'native')
    if REPO != '/repo':
        # development aid (HV_REPO=<copy of the repository>): the helper crate is copied and pointed at that copy
        src = os.path.join(scratch(), f'native-{os.getpid()}'); shutil.rmtree(src, ignore_errors=True)
        shutil.copytree(os.path.join(VERIF, 'native'), src, ignore=shutil.ignore_patterns('target'))
        ct = open(os.path.join(src, 'Cargo.toml')).read().replace('path = "/repo"', f'path = "{REPO}"')
        open(os.path.join(src, 'Cargo.toml'), 'w').write(ct)
    p = subprocess.run(['cargo', 'build', '--release', '--offline'], cwd=src, env=env,
                       stdout=subprocess.PIPE, stderr=subprocess.STDOUT, text=True)
    if p.returncode != 0: raise FrontError('native helper build failed:\n' + p.stdout[-3000:])
    return {'hv_native': os.path.join(tdir, 'release', 'hv-native'), 'build_s': round(time.time() - t, 1)}

def _native_target():
    if REPO == '/repo': return os.path.join(CACHE, 'target-native')
    return os.path.join(CACHE, 'target-native-' + hashlib.sha256(REPO.encode()).hexdigest()[:8])

def build_converter():
    tdir = _native_target()
    env = dict(ENV, CARGO_TARGET_DIR=tdir)
    p = subprocess.run(['cargo', 'build', '--release', '--offline', '--bin', 'convert-aeon-to-bnet',
                        '--manifest-path', os.path.join(REPO, 'Cargo.toml')], env=env,
                       stdout=subprocess.PIPE, stderr=subprocess.STDOUT, text=True)
    if p.returncode != 0: raise FrontError('converter build failed:\n' + p.stdout[-3000:])
    return os.path.join(tdir, 'release', 'convert-aeon-to-bnet')

_native = None
def native(jobs, timeout=600):
    """Run a list of JSON jobs through hv-native (one process), return list of results."""
    global _native
    if _native is None: _native = build_native()
    p = subprocess.run([_native['hv_native']], input='\n'.join(json.dumps(j) for j in jobs) + '\n',
                       stdout=subprocess.PIPE, stderr=subprocess.PIPE, text=True, timeout=timeout)
    outs = [json.loads(l) for l in p.stdout.split('\n') if l.startswith('{')]
    if len(outs) != len(jobs):
        raise FrontError(f'hv-native answered {len(outs)} of {len(jobs)} jobs; stderr: {p.stderr[-2000:]}')
    return outs
