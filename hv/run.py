"""Check runner: obligations, verdict bookkeeping, replay files, known findings, evidence (DESIGN.md 3.7, 3.9)."""
import os, sys, json, time, hashlib, random, traceback
from . import front

VERIF = front.VERIF

class Inconclusive(Exception): pass

class Check:
    def __init__(self, pid, tier, seed, level='model_checking'):
        self.pid, self.tier, self.seed, self.level = pid, tier, seed, level
        self.t0 = time.time()
        self.rng = random.Random(seed * 1000003 + sum(map(ord, pid)))
        self.obl = []            # dicts: name, engine, verdict, s, nontrivial, detail
        self.violations = []     # (name, replay path)
        self.known_hits = []
        self.inconclusive = []
        self.unexplored = []     # parts whose MIR uses a construct (or a signature) the symbolic executor does not handle: stated, no verdict
        self.timeouts = []
        self.functions = set(); self.models = set(); self.bounds = {}; self.assumptions = []
        self.samples = []; self.extra = {}
        self.solver_s = 0.0; self.queries = 0; self.paths = 0; self.twins = {'expected_sat': 0, 'got_sat': 0}
        self.unwinding = {'assertions': 0, 'unsat': 0}
        self.native_replays = 0
        kf = json.load(open(os.path.join(VERIF, 'known_findings.json')))
        self.known = kf.get('findings', [])
    # ---- bookkeeping
    def note_functions(self, names): self.functions |= set(names)
    def obligation(self, name, engine, verdict, seconds=0.0, nontrivial=True, detail=None):
        """verdict: 'holds' | 'violated' | 'inconclusive' | 'timeout' | 'unexplored'"""
        if verdict == 'inconclusive' and ('unsupported' in name.lower() or 'budget exhausted' in name.lower() or '[error:' in name.lower() or 'error=' in name.lower()): verdict = 'unexplored'
        self.obl.append({'name': name, 'engine': engine, 'verdict': verdict, 's': round(seconds, 3), 'nontrivial': bool(nontrivial)})
        self.solver_s += seconds
        if len(self.samples) < 12 and verdict == 'holds' and detail is not None:
            self.samples.append({'obligation': name, 'engine': engine, **detail})
        if verdict == 'inconclusive': self.inconclusive.append(name)
        if verdict == 'unexplored': self.unexplored.append(name)
        if verdict == 'timeout': self.timeouts.append(name)
    def twin(self, got_sat):
        self.twins['expected_sat'] += 1
        if got_sat: self.twins['got_sat'] += 1
    def violation(self, name, signature, replay, what):
        """a violation that reproduced natively.  signature: role signature matched against known_findings.json"""
        for k in self.known:
            if k.get('property') == self.pid and k.get('signature') == signature:
                line = f"KNOWN-FINDING: property={self.pid} {k.get('what', what)}"
                if line not in self.known_hits: self.known_hits.append(line); print(line, flush=True)
                return
        rdir = os.environ.get('HV_REPLAY_DIR') or os.path.join(VERIF, 'replays')
        os.makedirs(rdir, exist_ok=True)
        h = hashlib.sha256(json.dumps(replay, sort_keys=True, default=str).encode()).hexdigest()[:12]
        path = os.path.join(rdir, f'{self.pid}-{h}.json')
        json.dump({'property': self.pid, 'obligation': name, 'signature': signature, 'what': what, 'replay': replay}, open(path, 'w'), indent=1, default=str)
        self.violations.append((name, path))
        if len(self.violations) <= 8:
            print(f'VIOLATION property={self.pid} replay={path}', flush=True)
            print(f'  obligation: {name}\n  what: {what}', flush=True)
        elif len(self.violations) == 9: print('  (further violations are recorded under replays/ but not printed)', flush=True)
    def finish(self):
        wall = time.time() - self.t0
        nontriv = len({o['name'] for o in self.obl if o['nontrivial'] and o['verdict'] == 'holds'})
        cov = {
            'evaluations': len(self.obl), 'distinct_nontrivial': nontriv,
            'rule': self.extra.pop('rule', 'one evaluation = one solver-decided obligation; non-trivial = the encoding is not constant-folded and its reachability twin (same encoding, deliberately false conclusion) is satisfiable'),
            'samples': self.samples or [{'note': 'no obligation recorded'}],
            'obligations': len(self.obl), 'discharged': sum(1 for o in self.obl if o['verdict'] == 'holds'),
            'functions_encoded': sorted(self.functions), 'library_models_executed': sorted(self.models),
            'bounds': self.bounds, 'solver_queries': self.queries, 'solver_s': round(self.solver_s, 2), 'paths_explored': self.paths,
            'unwinding_assertions': self.unwinding, 'reachability_twins': self.twins, 'native_replays': self.native_replays,
            'inconclusive': self.inconclusive[:20], 'unexplored_parts': self.unexplored[:20], 'solver_timeouts_not_counted_as_discharged': self.timeouts[:30], 'by_engine': {},
            'exhaustive': False,
        }
        for o in self.obl:
            e = cov['by_engine'].setdefault(o['engine'], {'obligations': 0, 'holds': 0, 's': 0.0})
            e['obligations'] += 1; e['holds'] += o['verdict'] == 'holds'; e['s'] = round(e['s'] + o['s'], 2)
        if self.level == 'translation_validation':
            cov['programs'] = self.extra.pop('programs', len(self.obl)); cov['disagreements_checked'] = self.extra.pop('disagreements_checked', 0)
        cov.update(self.extra)
        ev = {'property_id': self.pid, 'tier': self.tier, 'seed': self.seed, 'level': self.level, 'coverage': cov,
              'assumptions': self.assumptions, 'wall_s': round(wall, 1), 'violations': len(self.violations),
              'known_findings_hit': self.known_hits}
        edir = os.environ.get('HV_EVIDENCE_DIR') or os.path.join(VERIF, 'evidence')
        os.makedirs(edir, exist_ok=True)
        p = os.path.join(edir, f'{self.pid}.json')
        json.dump(ev, open(p + '.tmp', 'w'), indent=1, default=str); os.replace(p + '.tmp', p)
        n_hold = cov['discharged']
        print(f'[{self.pid}] tier={self.tier} seed={self.seed}: {len(self.obl)} obligations, {n_hold} hold, {len(self.violations)} violations, '
              f'{len(self.inconclusive)} inconclusive, {len(self.timeouts)} solver timeouts (not counted as discharged), solver {self.solver_s:.1f}s, wall {wall:.1f}s', flush=True)
        if self.unexplored:
            # not a verdict on the code: the symbolic executor met a construct or signature it does not handle in this part;
            # the part is listed in the evidence, the other parts (above all those that run the real code natively) decide
            print(f'UNEXPLORED property={self.pid} parts={len(self.unexplored)} first={self.unexplored[:3]}', flush=True)
        if self.violations: return 1
        if self.inconclusive:
            print(f'INCONCLUSIVE property={self.pid} obligations={self.inconclusive[:5]}', flush=True)
            return 2
        if self.unexplored and n_hold == 0:
            print(f'INCONCLUSIVE property={self.pid} nothing could be explored', flush=True)
            return 2
        return 0

def guard(chk, label, fn, *a, **kw):
    """run one E-MIR part; an unsupported construct makes THIS part inconclusive, the rest of the check still runs"""
    from .mirsym.interp import Unsupported
    try: return fn(*a, **kw)
    except Unsupported as e:
        chk.obligation(f'{label} [unsupported: {str(e)[:160]}]', 'E-MIR', 'inconclusive')
        print(f'  {label}: unsupported construct in the MIR of the working tree: {str(e)[:200]}', flush=True)
    except Inconclusive as e:
        chk.obligation(f'{label} [{str(e)[:160]}]', 'E-MIR', 'inconclusive')

def _sub_run(args):
    modname, fname, pid, tier, seed, level, arg = args
    import importlib
    mod = importlib.import_module(modname)
    sub = Check(pid, tier, seed, level)
    try: getattr(mod, fname)(sub, arg)
    except Exception as e:
        from .mirsym.interp import Unsupported
        traceback.print_exc()
        sub.unexplored.append(('unsupported=' if isinstance(e, Unsupported) else 'error=') + repr(e)[:200])
    return {k: getattr(sub, k) for k in ('obl', 'violations', 'known_hits', 'inconclusive', 'unexplored', 'timeouts', 'functions', 'models', 'bounds', 'assumptions', 'samples', 'solver_s', 'queries', 'paths', 'twins', 'unwinding', 'native_replays')}

def run_parallel(chk, modname, fname, args, procs=None):
    """run mod.fname(sub_check, arg) for every arg in its own process and merge the bookkeeping into chk"""
    import multiprocessing as mp
    from . import front
    front.build_native()
    jobs = [(modname, fname, chk.pid, chk.tier, chk.seed, chk.level, a) for a in args]
    with mp.Pool(procs or min(len(jobs), 14)) as pool: results = pool.map(_sub_run, jobs, chunksize=1)
    for r in results:
        chk.obl += r['obl']; chk.violations += r['violations']; chk.inconclusive += r['inconclusive']; chk.unexplored += r['unexplored']; chk.timeouts += r['timeouts']
        chk.known_hits += [h for h in r['known_hits'] if h not in chk.known_hits]
        chk.functions |= r['functions']; chk.models |= r['models']; chk.bounds.update(r['bounds'])
        chk.assumptions += [a for a in r['assumptions'] if a not in chk.assumptions]
        chk.samples += r['samples'][:max(0, 12 - len(chk.samples))]
        chk.solver_s += r['solver_s']; chk.queries += r['queries']; chk.paths += r['paths']; chk.native_replays += r['native_replays']
        for k in ('expected_sat', 'got_sat'): chk.twins[k] += r['twins'][k]
        for k in ('assertions', 'unsat'): chk.unwinding[k] += r['unwinding'][k]

def main(argv):
    import argparse, importlib
    ap = argparse.ArgumentParser()
    ap.add_argument('pid'); ap.add_argument('--tier', default=os.environ.get('VERIF_TIER', 'quick'))
    ap.add_argument('--replay', default=None)
    a = ap.parse_args(argv)
    seed = int(os.environ.get('VERIF_SEED', '0') or 0)
    pid = a.pid.upper()
    mod = importlib.import_module(f'hv.props.{pid.lower()}')
    if a.replay:
        from . import replayfile
        return replayfile.run(pid, json.load(open(a.replay)))
    chk = Check(pid, a.tier, seed, getattr(mod, 'LEVEL', 'model_checking'))
    from . import uni
    if a.tier == 'thorough':
        import random
        uni.CROSS['rate'] = float(os.environ.get('HV_CROSS_RATE', '0.05')); uni.CROSS['rng'] = random.Random(seed + 17)
    try:
        mod.run(chk)
        if uni.CROSS['checked']:
            chk.extra['cross_solver'] = {'queries_rechecked_by_cvc5_and_z3_4.8.12': uni.CROSS['checked'], 'agree': uni.CROSS['agree'], 'no_answer_in_60s': uni.CROSS['skipped'], 'disagreements': len(uni.CROSS['disagree'])}
            if uni.CROSS['disagree']: raise Inconclusive('solvers disagree on an exported query: ' + str(uni.CROSS['disagree'][:2]))
    except front.FrontError as e:
        print(f'INCONCLUSIVE property={pid} front-end: {e}', flush=True); chk.inconclusive.append('front-end'); chk.finish(); return 2
    except Exception as e:
        from .mirsym.interp import Unsupported
        traceback.print_exc()
        kind = 'unsupported=' + str(e)[:200] if isinstance(e, Unsupported) else 'inconclusive=' + str(e)[:300] if isinstance(e, Inconclusive) else 'error=' + repr(e)[:200]
        print(f'INCONCLUSIVE property={pid} {kind}', flush=True)
        chk.inconclusive.append(kind); chk.finish(); return 2
    return chk.finish()
