"""Text / tree laboratory: tokenizer, parser, tree constructors, preprocessing, canonisation executed from MIR in fork
mode on symbolic characters, in product with the reference implementations of hv.oracle.ref; parallel path exploration."""
import os, time, traceback, multiprocessing as mp
import z3
from . import front, trees as TR
from .mirsym.interp import (Interp, PathCtx, Ptr, Cell, Agg, RString, RStr, RVec, Panic, Unsupported, Infeasible, mkstr, mkref, show, char_domain, name_char_domain)
from .oracle import ref as R, sem as S

_I = None
def interp():
    global _I
    if _I is None:
        mirf, info = front.mir('lib')
        _I = Interp(front.REPO, mirf); _I.mir_info = info
    return _I

# ------------------------------------------------------------------ conversions
def tok_from_agg(I, t):
    while isinstance(t, Ptr): t = t.get()
    k = I.enums['HctlToken'][t.variant]
    if k == 'Unary': return ('un', TR.RUN[I.enums['UnaryOp'][t.fields[0].variant]])
    if k == 'Binary': return ('bin', TR.RBIN[I.enums['BinaryOp'][t.fields[0].variant]])
    if k == 'Hybrid':
        d = t.fields[2]
        return ('hyb', TR.RHYB[I.enums['HybridOp'][t.fields[0].variant]], tuple(t.fields[1].chars), None if d.variant == 0 else tuple(d.fields[0].chars))
    if k == 'Atom':
        a = t.fields[0]; an = I.enums['Atomic'][a.variant]
        if an == 'True': return ('const', True)
        if an == 'False': return ('const', False)
        return ({'Prop': 'prop', 'Var': 'var', 'WildCardProp': 'wild'}[an], tuple(a.fields[0].chars))
    return ('group', [tok_from_agg(I, x) for x in t.fields[0].items])

def tok_from_json(j):
    k = j['k']
    nm = lambda s: tuple(ord(c) for c in s)
    if k == 'un': return ('un', TR.RUN[j['op']])
    if k == 'bin': return ('bin', TR.RBIN[j['op']])
    if k == 'hyb': return ('hyb', TR.RHYB[j['op']], nm(j['var']), None if j['dom'] is None else nm(j['dom']))
    if k in ('prop', 'var', 'wild'): return (k, nm(j['name']))
    if k in ('true', 'false'): return ('const', k == 'true')
    return ('group', [tok_from_json(x) for x in j['t']])

def tree_from_json(j):
    n = j['n']; k = n['k']
    nm = lambda s: tuple(ord(c) for c in s)
    if k in ('prop', 'var', 'wild'): return (k, nm(n['name']))
    if k in ('true', 'false'): return (k,)
    if k == 'un': return (TR.RUN[n['op']], tree_from_json(n['c']))
    if k == 'bin': return (TR.RBIN[n['op']], tree_from_json(n['l']), tree_from_json(n['r']))
    op = TR.RHYB[n['op']]
    if op == 'jump': return ('jump', nm(n['var']), tree_from_json(n['c']))
    return (op, nm(n['var']), None if n['dom'] is None else nm(n['dom']), tree_from_json(n['c']))

def tree_to_json(phi):
    """reference tree (concrete names) -> the JSON accepted by hv-native's tree_from_json"""
    nm = lambda t: ''.join(chr(c) for c in t) if not isinstance(t, str) else t
    op = phi[0]
    if op in ('prop', 'var', 'wild'): return {'n': {'k': op, 'name': nm(phi[1])}}
    if op in ('true', 'false'): return {'n': {'k': op}}
    if op in TR.UN: return {'n': {'k': 'un', 'op': TR.UN[op], 'c': tree_to_json(phi[1])}}
    if op in TR.BIN: return {'n': {'k': 'bin', 'op': TR.BIN[op], 'l': tree_to_json(phi[1]), 'r': tree_to_json(phi[2])}}
    if op == 'jump': return {'n': {'k': 'hyb', 'op': 'Jump', 'var': nm(phi[1]), 'dom': None, 'c': tree_to_json(phi[2])}}
    return {'n': {'k': 'hyb', 'op': TR.HYB[op], 'var': nm(phi[1]), 'dom': None if phi[2] is None else nm(phi[2]), 'c': tree_to_json(phi[3])}}

def concretize(m, chars):
    return ''.join(chr(m.eval(c, model_completion=True).as_long()) if z3.is_expr(c) else chr(c) for c in chars)

def ref_concrete(text, extended):
    """reference parse of a concrete string: ('ok', tokens, tree) | ('tok-reject',) | ('parse-reject', tokens)"""
    I = interp(); I.ctx = PathCtx()
    cs = [ord(c) for c in text]
    try: toks = R.tokenize(I, cs, extended)
    except R.Reject: return ('tok-reject',)
    try: tree = R.parse_tokens(I, toks)
    except R.Reject: return ('parse-reject', toks)
    return ('ok', toks, tree)

# ------------------------------------------------------------------ scenarios (return plain data)
def sc_c05_chars(ctx, p):
    """all strings of p['L'] symbolic characters: tokenizer and parser (plain and extended) vs the reference"""
    I = interp(); I.ctx = ctx; I.steps = 0
    L = p['L']
    cs = [z3.BitVec(f'c{i}', 32) for i in range(L)]
    for c in cs: ctx.assume(char_domain(c))
    out = {'ok': True, 'why': None}
    def fail(why):
        out['ok'] = False; out['why'] = why; out['text'] = concretize(ctx.model(), cs)
        return out
    res = {}
    for ext in (False, True):
        r = I.run(I.fn('try_tokenize_extended_formula' if ext else 'try_tokenize_formula'), [RString(cs)])
        try: rt = R.tokenize(I, cs, ext); racc = True
        except R.Reject: rt = None; racc = False
        iacc = r.variant == 0
        if iacc != racc: return fail(f'tokenizer ({"extended" if ext else "plain"}) {"accepts" if iacc else "rejects"}, grammar {"accepts" if racc else "rejects"}')
        if not iacc: res[ext] = None; continue
        it = [tok_from_agg(I, t) for t in r.fields[0].items]
        rt2 = [_const_as_prop(t) for t in rt]
        okv, m = ctx.valid(_b(R.tokens_eq(I, it, rt2)))
        if not okv: out['ok'] = False; out['why'] = f'token list differs ({"extended" if ext else "plain"})'; out['text'] = concretize(m, cs); return out
        # parser on the implementation's own tokens
        pr = I.run(I.fn('parse_hctl_tokens'), [Ptr(Cell(r.fields[0]))])
        try: rtree = R.parse_tokens(I, rt); pacc = True
        except R.Reject: rtree = None; pacc = False
        if (pr.variant == 0) != pacc: return fail(f'parser ({"extended" if ext else "plain"}) {"accepts" if pr.variant == 0 else "rejects"}, grammar {"accepts" if pacc else "rejects"}')
        if pacc:
            itree = TR.read(I, pr.fields[0])
            okv, m = ctx.valid(_b(R.tree_eq(I, itree, rtree)))
            if not okv: out['ok'] = False; out['why'] = 'tree differs from the unique tree of the grammar'; out['text'] = concretize(m, cs); return out
            if R.count_nodes(itree) != R.count_tokens(rt): return fail('number of tree nodes != number of tokens (a token was dropped or invented)')
            # C06 on parser output: stored text and height
            st, h = TR.stored(I, pr.fields[0])
            okv, m = ctx.valid(_b(I.equal(RString(st), RString(R.render(itree)))))
            if not okv or h != R.height(itree): return fail('stored formula text / height differs from the canonical rendering')
            res[ext] = itree
        else: res[ext] = None
        out.setdefault('cls', []).append(('T' if iacc else 't') + ('P' if pacc else 'p'))
    # plain vs extended
    if res.get(False) is not None:
        if res.get(True) is None: return fail('plain parser accepts but extended parser rejects')
        okv, m = ctx.valid(_b(R.tree_eq(I, res[False], res[True])))
        if not okv: return fail('plain and extended parsers give different trees')
    if res.get(True) is not None and res.get(False) is not None and _has_ext(res[False]): return fail('plain parser produced a wild-card / domain')
    if res.get(True) is not None and _has_ext(res[True]) and res.get(False) is not None: return fail('plain parser accepts a formula with wild-cards / domains')
    return out

def _b(x): return x if z3.is_expr(x) else z3.BoolVal(bool(x))
def _const_as_prop(t):
    return t
def _has_ext(phi):
    op = phi[0]
    if op == 'wild': return True
    if op in ('true', 'false', 'prop', 'var'): return False
    if op in S.QUANT: return phi[2] is not None or _has_ext(phi[3])
    if op == 'jump': return _has_ext(phi[2])
    return any(_has_ext(c) for c in phi[1:])

SCENARIOS = {'c05_chars': sc_c05_chars}

# ------------------------------------------------------------------ parallel exploration
def _explore_chunk(args):
    """explore at most `budget` paths below `prefixes`; return results and the prefixes still open"""
    name, params, prefixes, timeout_ms, budget = args
    sc = SCENARIOS[name]
    out = []; work = [list(p) for p in prefixes]; q = 0; t0 = time.time()
    err = None
    try:
        while work and len(out) < budget:
            pre = work.pop()
            ctx = PathCtx(pre, timeout_ms)
            try: v = sc(ctx, params)
            except Panic as e: v = {'ok': None, 'panic': str(e)[:300], 'decisions': list(ctx.taken)}
            except Infeasible: work.extend(ctx.pending); continue
            work.extend(ctx.pending); q += ctx.queries
            out.append(v)
    except Unsupported as e: err = 'unsupported: ' + str(e)[:300]
    except Exception as e: err = 'error: ' + repr(e)[:200] + traceback.format_exc()[-600:]
    I = interp()
    return {'error': err, 'results': out, 'open': work if err is None else [], 'queries': q, 's': time.time() - t0, 'functions': sorted(I.executed), 'models': sorted(I.models_used)}

def explore_parallel(name, params, procs=14, timeout_ms=20000, max_paths=400000, budget=40):
    """explore every path of scenario `name`; open decision prefixes are handed to worker processes in chunks and the
    prefixes a worker leaves open come back to the queue (dynamic load balancing)"""
    results = []; info = {'queries': 0, 'functions': set(), 'models': set(), 'errors': []}
    first = _explore_chunk((name, params, [[]], timeout_ms, 8))
    results.extend(first['results']); info['queries'] += first['queries']; info['functions'] |= set(first['functions']); info['models'] |= set(first['models'])
    if first['error']: info['errors'].append(first['error']); return results, info
    open_ = first['open']
    if not open_: return results, info
    with mp.Pool(procs) as pool:
        pending = []
        def submit():
            while open_ and len(pending) < procs * 2:
                n = max(1, min(4, len(open_) // (procs * 2) or 1))
                chunk = [open_.pop() for _ in range(min(n, len(open_)))]
                pending.append(pool.apply_async(_explore_chunk, ((name, params, chunk, timeout_ms, budget),)))
        submit()
        while pending:
            done = [p for p in pending if p.ready()]
            if not done: time.sleep(0.01); continue
            for p in done:
                pending.remove(p); r = p.get()
                results.extend(r['results']); info['queries'] += r['queries']; info['functions'] |= set(r['functions']); info['models'] |= set(r['models'])
                if r['error']: info['errors'].append(r['error'])
                open_.extend(r['open'])
            if len(results) > max_paths: info['errors'].append('path budget exhausted'); break
            submit()
    return results, info

# ------------------------------------------------------------------ token-level scenario (C05)
TOKEN_CLASSES = ['hyb_bind', 'hyb_jump', 'hyb_exists_dom', 'and', 'or', 'xor', 'imp', 'iff', 'EU', 'AW', 'not', 'EX', 'AG', 'prop', 'var', 'const', 'wild', 'group1', 'group3', 'group_un']
def _mk_token(I, cls, i, ctx):
    e = lambda ty, nm: Agg(ty, I.enums[ty].index(nm), [])
    T = lambda variant, fields: Agg('HctlToken', I.enums['HctlToken'].index(variant), fields)
    nm = lambda s: mkstr(s)
    none = Agg('Option', 0, [])
    if cls == 'hyb_bind': return T('Hybrid', [e('HybridOp', 'Bind'), nm('x'), none]), ('hyb', 'bind', tuple(map(ord, 'x')), None)
    if cls == 'hyb_jump': return T('Hybrid', [e('HybridOp', 'Jump'), nm('x'), none]), ('hyb', 'jump', tuple(map(ord, 'x')), None)
    if cls == 'hyb_exists_dom': return T('Hybrid', [e('HybridOp', 'Exists'), nm('y'), Agg('Option', 1, [nm('d')])]), ('hyb', 'exists', tuple(map(ord, 'y')), tuple(map(ord, 'd')))
    if cls in ('and', 'or', 'xor', 'imp', 'iff', 'EU', 'AW'): return T('Binary', [e('BinaryOp', TR.BIN[cls])]), ('bin', cls)
    if cls in ('not', 'EX', 'AG'): return T('Unary', [e('UnaryOp', TR.UN[cls])]), ('un', cls)
    A = lambda variant, fields: Agg('Atomic', I.enums['Atomic'].index(variant), fields)
    if cls == 'prop':
        name = f'p{i}'; return T('Atom', [A('Prop', [nm(name)])]), ('prop', tuple(map(ord, name)))
    if cls == 'const': return T('Atom', [A('Prop', [nm('true')])]), ('prop', tuple(map(ord, 'true')))
    if cls == 'var': return T('Atom', [A('Var', [nm('x')])]), ('var', tuple(map(ord, 'x')))
    if cls == 'wild': return T('Atom', [A('WildCardProp', [nm('w')])]), ('wild', tuple(map(ord, 'w')))
    inner = {'group1': ['prop'], 'group3': ['prop', 'or', 'prop'], 'group_un': ['hyb_bind', 'EX', 'var']}[cls]
    pairs = [_mk_token(I, c, i * 10 + j, ctx) for j, c in enumerate(inner)]
    return T('Tokens', [RVec([p[0] for p in pairs])]), ('group', [p[1] for p in pairs])

def sc_c05_tokens(ctx, p):
    """parse_hctl_tokens on every sequence of p['L'] tokens over TOKEN_CLASSES (choices) vs the reference parser"""
    I = interp(); I.ctx = ctx; I.steps = 0
    classes = p.get('classes') or TOKEN_CLASSES
    seq = [classes[ctx.choose(len(classes), f't{i}')] for i in range(p['L'])]
    pairs = [_mk_token(I, c, i, ctx) for i, c in enumerate(seq)]
    vec = RVec([x[0] for x in pairs]); rt = [x[1] for x in pairs]
    out = {'ok': True, 'seq': seq}
    from .mirsym.interp import Slice
    pr = I.run(I.fn('parse_hctl_tokens'), [Slice(vec, 0, len(vec.items))])
    try: rtree = R.parse_tokens(I, rt); acc = True
    except R.Reject: acc = False
    out['cls'] = 'P' if acc else 'p'
    if (pr.variant == 0) != acc:
        out['ok'] = False; out['why'] = f'parser {"accepts" if pr.variant == 0 else "rejects"}, grammar {"accepts" if acc else "rejects"}'; return out
    if acc:
        itree = TR.read(I, pr.fields[0])
        eq = R.tree_eq(I, itree, rtree)
        if eq is not True: out['ok'] = False; out['why'] = 'tree differs from the unique tree of the grammar: ' + show(TR.stored(I, pr.fields[0])[0]); return out
        if R.count_nodes(itree) != R.count_tokens(rt): out['ok'] = False; out['why'] = 'node count != token count'; return out
        st, h = TR.stored(I, pr.fields[0])
        if st != R.render(itree) or h != R.height(itree): out['ok'] = False; out['why'] = 'stored text / height inconsistent'; return out
    return out
SCENARIOS['c05_tokens'] = sc_c05_tokens

def token_text(t):
    """concrete text of a reference token (for native replay)"""
    k = t[0]
    s = lambda n: ''.join(chr(c) for c in n)
    if k == 'un': return '~' if t[1] == 'not' else t[1]
    if k == 'bin': return R.SYM.get(t[1], t[1])
    if k == 'hyb': return R.HSYM[t[1]] + '{' + s(t[2]) + '}' + ('' if t[3] is None else ' in %' + s(t[3]) + '%') + ':'
    if k == 'prop': return s(t[1])
    if k == 'var': return '{' + s(t[1]) + '}'
    if k == 'wild': return '%' + s(t[1]) + '%'
    return '(' + ' '.join(token_text(x) for x in t[1]) + ')'
