"""Text / tree laboratory: tokenizer, parser, tree constructors, preprocessing, canonisation executed from MIR in fork
mode on symbolic characters, in product with the reference implementations of hv.oracle.ref; parallel path exploration."""
import os, time, traceback, multiprocessing as mp
import z3
from . import front, trees as TR
from .mirsym.interp import (Interp, PathCtx, Ptr, Cell, Agg, RString, RStr, RVec, Panic, Unsupported, Infeasible, mkstr, mkref, show, char_domain, name_char_domain)
from .oracle import ref as R, sem as S

_I = None
def interp():
    global _I
    if _I is None:
        mirf, info = front.mir('lib')
        _I = Interp(front.REPO, mirf); _I.mir_info = info
        _I.max_perm = 1      # hash-order nondeterminism is explored where it matters (C04, C09)
    return _I

# ------------------------------------------------------------------ conversions
def tok_from_agg(I, t):
    while isinstance(t, Ptr): t = t.get()
    k = I.enums['HctlToken'][t.variant]
    if k == 'Unary': return ('un', TR.RUN[I.enums['UnaryOp'][t.fields[0].variant]])
    if k == 'Binary': return ('bin', TR.RBIN[I.enums['BinaryOp'][t.fields[0].variant]])
    if k == 'Hybrid':
        d = t.fields[2]
        return ('hyb', TR.RHYB[I.enums['HybridOp'][t.fields[0].variant]], tuple(t.fields[1].chars), None if d.variant == 0 else tuple(d.fields[0].chars))
    if k == 'Atom':
        a = t.fields[0]; an = I.enums['Atomic'][a.variant]
        if an == 'True': return ('const', True)
        if an == 'False': return ('const', False)
        return ({'Prop': 'prop', 'Var': 'var', 'WildCardProp': 'wild'}[an], tuple(a.fields[0].chars))
    return ('group', [tok_from_agg(I, x) for x in t.fields[0].items])

def tok_from_json(j):
    k = j['k']
    nm = lambda s: tuple(ord(c) for c in s)
    if k == 'un': return ('un', TR.RUN[j['op']])
    if k == 'bin': return ('bin', TR.RBIN[j['op']])
    if k == 'hyb': return ('hyb', TR.RHYB[j['op']], nm(j['var']), None if j['dom'] is None else nm(j['dom']))
    if k in ('prop', 'var', 'wild'): return (k, nm(j['name']))
    if k in ('true', 'false'): return ('const', k == 'true')
    return ('group', [tok_from_json(x) for x in j['t']])

def tree_from_json(j):
    n = j['n']; k = n['k']
    nm = lambda s: tuple(ord(c) for c in s)
    if k in ('prop', 'var', 'wild'): return (k, nm(n['name']))
    if k in ('true', 'false'): return (k,)
    if k == 'un': return (TR.RUN[n['op']], tree_from_json(n['c']))
    if k == 'bin': return (TR.RBIN[n['op']], tree_from_json(n['l']), tree_from_json(n['r']))
    op = TR.RHYB[n['op']]
    if op == 'jump': return ('jump', nm(n['var']), tree_from_json(n['c']))
    return (op, nm(n['var']), None if n['dom'] is None else nm(n['dom']), tree_from_json(n['c']))

def tree_to_json(phi):
    """reference tree (concrete names) -> the JSON accepted by hv-native's tree_from_json"""
    nm = lambda t: ''.join(chr(c) for c in t) if not isinstance(t, str) else t
    op = phi[0]
    if op in ('prop', 'var', 'wild'): return {'n': {'k': op, 'name': nm(phi[1])}}
    if op in ('true', 'false'): return {'n': {'k': op}}
    if op in TR.UN: return {'n': {'k': 'un', 'op': TR.UN[op], 'c': tree_to_json(phi[1])}}
    if op in TR.BIN: return {'n': {'k': 'bin', 'op': TR.BIN[op], 'l': tree_to_json(phi[1]), 'r': tree_to_json(phi[2])}}
    if op == 'jump': return {'n': {'k': 'hyb', 'op': 'Jump', 'var': nm(phi[1]), 'dom': None, 'c': tree_to_json(phi[2])}}
    return {'n': {'k': 'hyb', 'op': TR.HYB[op], 'var': nm(phi[1]), 'dom': None if phi[2] is None else nm(phi[2]), 'c': tree_to_json(phi[3])}}

def concretize(m, chars):
    return ''.join(chr(m.eval(c, model_completion=True).as_long()) if z3.is_expr(c) else chr(c) for c in chars)

def ref_concrete(text, extended):
    """reference parse of a concrete string: ('ok', tokens, tree) | ('tok-reject',) | ('parse-reject', tokens)"""
    I = interp(); I.ctx = PathCtx()
    cs = [ord(c) for c in text]
    try: toks = R.tokenize(I, cs, extended)
    except R.Reject: return ('tok-reject',)
    try: tree = R.parse_tokens(I, toks)
    except R.Reject: return ('parse-reject', toks)
    return ('ok', toks, tree)

# ------------------------------------------------------------------ scenarios (return plain data)
def sc_c05_chars(ctx, p):
    """all strings of p['L'] symbolic characters: tokenizer and parser (plain and extended) vs the reference"""
    I = interp(); I.ctx = ctx; I.steps = 0
    out = {'ok': True, 'why': None}
    if p.get('templates'):
        ts = c05_templates()
        ti = ctx.choose(len(ts), 'template'); cs = [ord(ch) for ch in ts[ti]]; out['group'] = ts[ti]
        for j in range(p.get('edits', 0)):
            pos = ctx.choose(len(cs), f'pos{j}')
            ch = z3.BitVec(f'e{j}', 32); ctx.assume(char_domain(ch)); cs[pos] = ch
    else:
        L = p['L']
        cs = [z3.BitVec(f'c{i}', 32) for i in range(L)]
        for c in cs: ctx.assume(char_domain(c))
    def fail(why):
        out['ok'] = False; out['why'] = why; out['text'] = concretize(ctx.model(), cs)
        return out
    res = {}
    for ext in (False, True):
        r = I.run(I.fn('try_tokenize_extended_formula' if ext else 'try_tokenize_formula'), [RString(cs)])
        try: rt = R.tokenize(I, cs, ext); racc = True
        except R.Reject: rt = None; racc = False
        iacc = r.variant == 0
        if iacc != racc: return fail(f'tokenizer ({"extended" if ext else "plain"}) {"accepts" if iacc else "rejects"}, grammar {"accepts" if racc else "rejects"}')
        if not iacc: res[ext] = None; continue
        it = [tok_from_agg(I, t) for t in r.fields[0].items]
        rt2 = [_const_as_prop(t) for t in rt]
        okv, m = ctx.valid(_b(R.tokens_eq(I, it, rt2)))
        if not okv: out['ok'] = False; out['why'] = f'token list differs ({"extended" if ext else "plain"})'; out['text'] = concretize(m, cs); return out
        # parser on the implementation's own tokens
        pr = I.run(I.fn('parse_hctl_tokens'), [Ptr(Cell(r.fields[0]))])
        try: rtree = R.parse_tokens(I, rt); pacc = True
        except R.Reject: rtree = None; pacc = False
        if (pr.variant == 0) != pacc: return fail(f'parser ({"extended" if ext else "plain"}) {"accepts" if pr.variant == 0 else "rejects"}, grammar {"accepts" if pacc else "rejects"}')
        if pacc:
            itree = TR.read(I, pr.fields[0])
            okv, m = ctx.valid(_b(R.tree_eq(I, itree, rtree)))
            if not okv: out['ok'] = False; out['why'] = 'tree differs from the unique tree of the grammar'; out['text'] = concretize(m, cs); return out
            if R.count_nodes(itree) != R.count_tokens(rt): return fail('number of tree nodes != number of tokens (a token was dropped or invented)')
            # C06 on parser output: stored text and height
            st, h = TR.stored(I, pr.fields[0])
            okv, m = ctx.valid(_b(I.equal(RString(st), RString(R.render(itree)))))
            if not okv or h != R.height(itree): return fail('stored formula text / height differs from the canonical rendering')
            res[ext] = itree
        else: res[ext] = None
        out.setdefault('cls', []).append(('T' if iacc else 't') + ('P' if pacc else 'p'))
    # plain vs extended
    if res.get(False) is not None:
        if res.get(True) is None: return fail('plain parser accepts but extended parser rejects')
        okv, m = ctx.valid(_b(R.tree_eq(I, res[False], res[True])))
        if not okv: return fail('plain and extended parsers give different trees')
    if res.get(True) is not None and res.get(False) is not None and _has_ext(res[False]): return fail('plain parser produced a wild-card / domain')
    if res.get(True) is not None and _has_ext(res[True]) and res.get(False) is not None: return fail('plain parser accepts a formula with wild-cards / domains')
    return out

def c05_templates():
    """every spelling of every hybrid operator, with / without a domain, at top level / inside parentheses / after another
    hybrid operator; plus identifier shapes next to keywords"""
    out = []
    for sym in ('!', '3', 'V', '@', '\\bind ', '\\exists ', '\\forall ', '\\jump '):
        for dom in ('', ' in %d%'):
            head = sym + '{x}' + dom + ':'
            out += [head + ' AX {x}', 'p & (' + head + ' AX {x})', '!{y}: ' + head + ' {y}']
    out += ['EXa & EX a', 'AUx AU AU1', '3x | V_1', 'E & A', 'EW EW EW', 'a <=> b => c | d ^ e & f EU g', '~~EX~AG a', '(a)(b)', 'a ( b )', '{x} {y}', '%a%%b%', 'true & True & 1 | false | False | 0']
    return out

def _b(x): return x if z3.is_expr(x) else z3.BoolVal(bool(x))
def _const_as_prop(t):
    return t
def _has_ext(phi):
    op = phi[0]
    if op == 'wild': return True
    if op in ('true', 'false', 'prop', 'var'): return False
    if op in S.QUANT: return phi[2] is not None or _has_ext(phi[3])
    if op == 'jump': return _has_ext(phi[2])
    return any(_has_ext(c) for c in phi[1:])

SCENARIOS = {'c05_chars': sc_c05_chars}

# ------------------------------------------------------------------ parallel exploration
def _explore_chunk(args):
    """explore at most `budget` paths below `prefixes`; return results and the prefixes still open"""
    name, params, prefixes, timeout_ms, budget = args
    sc = SCENARIOS[name]
    out = []; work = [list(p) for p in prefixes]; q = 0; t0 = time.time()
    err = None
    try:
        while work and len(out) < budget:
            pre = work.pop()
            ctx = PathCtx(pre, timeout_ms)
            try: v = sc(ctx, params)
            except Panic as e: v = {'ok': None, 'panic': str(e)[:300], 'decisions': list(ctx.taken)}
            except Infeasible: work.extend(ctx.pending); continue
            work.extend(ctx.pending); q += ctx.queries
            out.append(v)
    except Unsupported as e: err = 'unsupported: ' + str(e)[:300]
    except Exception as e: err = 'error: ' + repr(e)[:200] + traceback.format_exc()[-600:]
    I = interp()
    return {'error': err, 'results': out, 'open': work if err is None else [], 'queries': q, 's': time.time() - t0, 'functions': sorted(I.executed), 'models': sorted(I.models_used)}

def explore_parallel(name, params, procs=14, timeout_ms=20000, max_paths=400000, budget=40):
    """explore every path of scenario `name`; open decision prefixes are handed to worker processes in chunks and the
    prefixes a worker leaves open come back to the queue (dynamic load balancing)"""
    results = []; info = {'queries': 0, 'functions': set(), 'models': set(), 'errors': []}
    first = _explore_chunk((name, params, [[]], timeout_ms, 8))
    results.extend(first['results']); info['queries'] += first['queries']; info['functions'] |= set(first['functions']); info['models'] |= set(first['models'])
    if first['error']: info['errors'].append(first['error']); return results, info
    open_ = first['open']
    if not open_: return results, info
    with mp.Pool(procs) as pool:
        pending = []
        def submit():
            while open_ and len(pending) < procs * 2:
                n = max(1, min(4, len(open_) // (procs * 2) or 1))
                chunk = [open_.pop() for _ in range(min(n, len(open_)))]
                pending.append(pool.apply_async(_explore_chunk, ((name, params, chunk, timeout_ms, budget),)))
        submit()
        while pending:
            done = [p for p in pending if p.ready()]
            if not done: time.sleep(0.01); continue
            for p in done:
                pending.remove(p); r = p.get()
                results.extend(r['results']); info['queries'] += r['queries']; info['functions'] |= set(r['functions']); info['models'] |= set(r['models'])
                if r['error']: info['errors'].append(r['error'])
                open_.extend(r['open'])
            if len(results) > max_paths: info['errors'].append('path budget exhausted'); break
            submit()
    return results, info

# ------------------------------------------------------------------ token-level scenario (C05)
TOKEN_CLASSES = ['hyb_bind', 'hyb_jump', 'hyb_exists_dom', 'and', 'or', 'xor', 'imp', 'iff', 'EU', 'AW', 'not', 'EX', 'AG', 'prop', 'var', 'const', 'wild', 'group1', 'group3', 'group_un']
def _mk_token(I, cls, i, ctx):
    e = lambda ty, nm: Agg(ty, I.enums[ty].index(nm), [])
    T = lambda variant, fields: Agg('HctlToken', I.enums['HctlToken'].index(variant), fields)
    nm = lambda s: mkstr(s)
    none = Agg('Option', 0, [])
    if cls == 'hyb_bind': return T('Hybrid', [e('HybridOp', 'Bind'), nm('x'), none]), ('hyb', 'bind', tuple(map(ord, 'x')), None)
    if cls == 'hyb_jump': return T('Hybrid', [e('HybridOp', 'Jump'), nm('x'), none]), ('hyb', 'jump', tuple(map(ord, 'x')), None)
    if cls == 'hyb_exists_dom': return T('Hybrid', [e('HybridOp', 'Exists'), nm('y'), Agg('Option', 1, [nm('d')])]), ('hyb', 'exists', tuple(map(ord, 'y')), tuple(map(ord, 'd')))
    if cls in TR.BIN: return T('Binary', [e('BinaryOp', TR.BIN[cls])]), ('bin', cls)
    if cls in ('not', 'EX', 'AG'): return T('Unary', [e('UnaryOp', TR.UN[cls])]), ('un', cls)
    A = lambda variant, fields: Agg('Atomic', I.enums['Atomic'].index(variant), fields)
    if cls == 'prop':
        name = f'p{i}'; return T('Atom', [A('Prop', [nm(name)])]), ('prop', tuple(map(ord, name)))
    if cls == 'const': return T('Atom', [A('Prop', [nm('true')])]), ('prop', tuple(map(ord, 'true')))
    if cls == 'var': return T('Atom', [A('Var', [nm('x')])]), ('var', tuple(map(ord, 'x')))
    if cls == 'wild': return T('Atom', [A('WildCardProp', [nm('w')])]), ('wild', tuple(map(ord, 'w')))
    inner = {'group1': ['prop'], 'group3': ['prop', 'or', 'prop'], 'group_un': ['hyb_bind', 'EX', 'var']}[cls]
    pairs = [_mk_token(I, c, i * 10 + j, ctx) for j, c in enumerate(inner)]
    return T('Tokens', [RVec([p[0] for p in pairs])]), ('group', [p[1] for p in pairs])

def sc_c05_tokens(ctx, p):
    """parse_hctl_tokens on every sequence of p['L'] tokens over TOKEN_CLASSES (choices) vs the reference parser"""
    I = interp(); I.ctx = ctx; I.steps = 0
    classes = p.get('classes') or TOKEN_CLASSES
    if p.get('pattern'): seq = [cl[ctx.choose(len(cl), f't{i}')] for i, cl in enumerate(p['pattern'])]
    else: seq = [classes[ctx.choose(len(classes), f't{i}')] for i in range(p['L'])]
    pairs = [_mk_token(I, c, i, ctx) for i, c in enumerate(seq)]
    vec = RVec([x[0] for x in pairs]); rt = [x[1] for x in pairs]
    out = {'ok': True, 'seq': seq}
    from .mirsym.interp import Slice
    pr = I.run(I.fn('parse_hctl_tokens'), [Slice(vec, 0, len(vec.items))])
    try: rtree = R.parse_tokens(I, rt); acc = True
    except R.Reject: acc = False
    out['cls'] = 'P' if acc else 'p'
    if (pr.variant == 0) != acc:
        out['ok'] = False; out['why'] = f'parser {"accepts" if pr.variant == 0 else "rejects"}, grammar {"accepts" if acc else "rejects"}'; return out
    if acc:
        itree = TR.read(I, pr.fields[0])
        eq = R.tree_eq(I, itree, rtree)
        if eq is not True: out['ok'] = False; out['why'] = 'tree differs from the unique tree of the grammar: ' + show(TR.stored(I, pr.fields[0])[0]); return out
        if R.count_nodes(itree) != R.count_tokens(rt): out['ok'] = False; out['why'] = 'node count != token count'; return out
        st, h = TR.stored(I, pr.fields[0])
        if st != R.render(itree) or h != R.height(itree): out['ok'] = False; out['why'] = 'stored text / height inconsistent'; return out
    return out
SCENARIOS['c05_tokens'] = sc_c05_tokens

def token_text(t):
    """concrete text of a reference token (for native replay)"""
    k = t[0]
    s = lambda n: ''.join(chr(c) for c in n)
    if k == 'un': return '~' if t[1] == 'not' else t[1]
    if k == 'bin': return R.SYM.get(t[1], t[1])
    if k == 'hyb': return R.HSYM[t[1]] + '{' + s(t[2]) + '}' + ('' if t[3] is None else ' in %' + s(t[3]) + '%') + ':'
    if k == 'prop': return s(t[1])
    if k == 'var': return '{' + s(t[1]) + '}'
    if k == 'wild': return '%' + s(t[1]) + '%'
    return '(' + ' '.join(token_text(x) for x in t[1]) + ')'

# ------------------------------------------------------------------ C06: constructors / Display / parser round trip
KEYWORDS = ['EX', 'EF', 'EG', 'EU', 'EW', 'AX', 'AF', 'AG', 'AU', 'AW', '3', 'V', 'true', 'True', '1', 'false', 'False', '0']
def not_keyword(name):
    """constraint: the (symbolic) name is not a reserved word"""
    cs = []
    for kw in KEYWORDS:
        if len(kw) != len(name): continue
        cs.append(z3.Not(z3.And([(c if z3.is_expr(c) else z3.BitVecVal(c, 32)) == ord(k) for c, k in zip(name, kw)])))
    return z3.And(cs) if cs else z3.BoolVal(True)

class Names:
    """fresh symbolic identifiers"""
    def __init__(self, ctx, tag=''): self.ctx, self.n, self.tag = ctx, 0, tag
    def fresh(self, length=1, keyword_free=False):
        cs = []
        for j in range(length):
            c = z3.BitVec(f'{self.tag}n{self.n}_{j}', 32); self.ctx.assume(name_char_domain(c)); cs.append(c)
        self.n += 1
        if keyword_free: self.ctx.assume(not_keyword(cs))
        return cs

UNOPS = list(TR.UN); BINOPS = list(TR.BIN)
def child_templates(ctx):
    """small sub-trees with concrete names"""
    o = lambda s_: tuple(map(ord, s_))
    P, P2, V, Wc = ('prop', o('p')), ('prop', o('q_1')), ('var', o('x')), ('wild', o('w'))
    return [P, V, Wc, ('true',), ('false',), ('not', P), ('EX', V), ('and', P, Wc), ('EU', V, P2), ('bind', o('y'), None, ('var', o('y'))),
            ('exists', o('z'), o('d'), P), ('jump', o('x'), ('AG', P2)), ('iff', ('not', V), ('forall', o('zz'), None, Wc))]

NAME_SHAPES = [lambda n: ('prop', n), lambda n: ('var', n), lambda n: ('wild', n), lambda n: ('EX', ('prop', n)), lambda n: ('and', ('prop', n), ('var', n)),
               lambda n: ('bind', n, None, ('var', n)), lambda n: ('exists', tuple(map(ord, 'x')), n, ('prop', tuple(map(ord, 'p')))), lambda n: ('jump', n, ('wild', n)),
               lambda n: ('EU', ('prop', n), ('not', ('prop', n))), lambda n: ('forall', n, n, ('imp', ('wild', n), ('prop', n)))]

def sc_c06(ctx, p):
    """mode 'shape': tree = root operator (every operator / hybrid / domain choice) over child templates (concrete names);
    mode 'names': a few shapes with one symbolic identifier of p['len'] characters used in every name slot.
    Obligations: parse_extended_formula(tree.to_string()) == tree; stored text == canonical rendering; stored height == 1 + max child"""
    I = interp(); I.ctx = ctx; I.steps = 0
    if p['mode'] == 'names':
        names = Names(ctx)
        shape = NAME_SHAPES[ctx.choose(len(NAME_SHAPES), 'shape')]
        if p.get('prefix'):
            # identifiers that begin like a temporal operator (EX_1, AGO, AUx): the tokenizer decides by look-ahead
            PRE = ['EX', 'EF', 'EG', 'EU', 'EW', 'AX', 'AF', 'AG', 'AU', 'AW']
            nm = tuple(map(ord, PRE[ctx.choose(len(PRE), 'prefix')])) + tuple(names.fresh(p['len']))
            ctx.assume(not_keyword(list(nm)))
        elif p.get('near'):
            # identifiers that are case variants of a reserved constant word (TRUE, tRuE, FALSE, ..): every character's case is a
            # solver variable; the reserved spellings themselves are excluded
            W = ['true', 'false'][ctx.choose(2, 'near')]
            cs = []
            for j, ch in enumerate(W):
                c = z3.BitVec(f'near{j}', 32); ctx.assume(z3.Or(c == ord(ch), c == ord(ch.upper()))); cs.append(c)
            ctx.assume(not_keyword(cs)); nm = tuple(cs)
        else: nm = tuple(names.fresh(p['len'], keyword_free=True))
        phi = shape(nm); root = ('names',)
    else:
        o = lambda s_: tuple(map(ord, s_))
        roots = [('un', op) for op in UNOPS] + [('bin', op) for op in BINOPS] + [('hyb', op, d) for op in ('bind', 'exists', 'forall') for d in (False, True)] + [('jump',), ('leaf',)]
        root = roots[ctx.choose(len(roots), 'root')]
        temps = child_templates(ctx)
        def child(tag):
            t = temps[ctx.choose(len(temps), tag)]
            if p.get('deep') and ctx.choose(2, tag + 'deep'): t = (UNOPS[ctx.choose(len(UNOPS), tag + 'u')], t)
            return t
        if root[0] == 'un': phi = (root[1], child('c0'))
        elif root[0] == 'bin': phi = (root[1], child('c0'), child('c1'))
        elif root[0] == 'hyb': phi = (root[1], o('v'), o('dom') if root[2] else None, child('c0'))
        elif root[0] == 'jump': phi = ('jump', o('v'), child('c0'))
        else: phi = child('c0')
    tree = TR.build(I, phi)
    out = {'ok': True, 'root': str(root), 'group': ' '.join(map(str, root))}
    def fail(why, m=None):
        m = m or ctx.model()
        out.update({'ok': False, 'why': why, 'tree': tree_to_json(_conc_tree(phi, m))}); return out
    # (b) stored text / height at every node
    def walk(node, ast):
        st, h = TR.stored(I, node)
        okv, m = ctx.valid(_b(I.equal(RString(st), RString(R.render(ast)))))
        if not okv: return 'stored text != canonical rendering', m
        if h != R.height(ast): return f'stored height {h} != {R.height(ast)}', None
        kids = TR.children(I, node); sub = [c for c in ast[1:] if isinstance(c, tuple) and c and isinstance(c[0], str)]
        for k, a in zip(kids, sub):
            r = walk(k, a)
            if r: return r
        return None
    r = walk(tree, phi)
    if r: return fail(r[0], r[1])
    okv, m = ctx.valid(_b(R.tree_eq(I, TR.read(I, tree), phi)))
    if not okv: return fail('constructed node structure differs from the arguments', m)
    # (a) print / parse round trip
    text = I.call('<hctl_tree::HctlTreeNode as ToString>::to_string', [Ptr(Cell(tree))])
    pr = I.run(I.fn('parse_extended_formula'), [RStr(text.chars)])
    if pr.variant != 0: return fail('printed tree does not parse: ' + show(pr.fields[0].chars))
    okv, m = ctx.valid(_b(I.equal(pr.fields[0], tree)))
    if not okv: return fail('parse(print(tree)) != tree', m)
    return out
SCENARIOS['c06'] = sc_c06

def _conc_tree(phi, m):
    def nm(x): return tuple(m.eval(c, model_completion=True).as_long() if z3.is_expr(c) else c for c in x)
    op = phi[0]
    if op in ('prop', 'var', 'wild'): return (op, nm(phi[1]))
    if op in ('true', 'false'): return phi
    if op == 'jump': return ('jump', nm(phi[1]), _conc_tree(phi[2], m))
    if op in S.QUANT: return (op, nm(phi[1]), None if phi[2] is None else nm(phi[2]), _conc_tree(phi[3], m))
    return (op,) + tuple(_conc_tree(c, m) for c in phi[1:])

# ------------------------------------------------------------------ C07: validate_props_and_rename_vars
def skeletons():
    """tree skeletons with numbered variable-name slots ('#i') and proposition slots; quantifiers / jumps at many positions"""
    v = lambda i: ('var', f'#{i}')
    P, Q = ('prop', 'P'), ('prop', 'Q')
    q = lambda op, i, body, d=None: (op, f'#{i}', d, body)
    j = lambda i, body: ('jump', f'#{i}', body)
    return [
        q('bind', 0, v(1)), q('exists', 0, ('and', v(1), P)), q('forall', 0, j(1, v(2))), v(0), j(0, P), ('and', q('bind', 0, v(1)), v(2)),
        q('bind', 0, q('exists', 1, ('and', v(2), v(3)))), q('bind', 0, q('bind', 1, v(2))), q('exists', 0, q('forall', 1, q('bind', 2, ('or', v(3), ('and', v(4), v(5)))))),
        ('and', q('bind', 0, ('AX', v(1))), q('exists', 2, ('EF', v(3)))), ('or', q('forall', 0, v(1)), ('and', q('bind', 2, v(3)), q('exists', 4, v(5)))),
        q('bind', 0, ('and', q('exists', 1, v(2)), q('forall', 3, ('EU', v(4), v(5))))), q('bind', 0, j(1, q('exists', 2, j(3, ('and', v(4), v(5)))))),
        q('exists', 0, ('and', j(1, ('AX', v(2))), ('EF', j(3, P)))), ('EX', q('bind', 0, ('AG', ('EF', v(1))))), q('bind', 0, ('and', P, Q)), ('imp', P, q('forall', 0, ('iff', v(1), Q))),
        q('bind', 0, q('exists', 1, q('forall', 2, j(3, ('and', v(4), ('or', v(5), v(6))))))), j(0, q('bind', 1, v(2))), q('bind', 0, ('and', j(1, v(2)), q('bind', 3, v(4)))),
        q('bind', 0, v(1), 'd'), q('exists', 0, q('forall', 1, ('and', v(2), ('wild', 'w')), 'e'), 'd'), ('and', q('bind', 0, q('bind', 1, v(2))), q('bind', 3, q('bind', 4, v(5)))),
        # the same closed shape at two different nesting depths (shallow then deep, deep then shallow, with a jump)
        ('and', q('bind', 0, ('AX', v(1))), q('bind', 2, ('and', ('AX', v(3)), q('bind', 4, ('AX', v(5)))))),
        ('and', q('bind', 0, ('and', ('AX', v(1)), q('bind', 2, ('AX', v(3))))), q('bind', 4, ('AX', v(5)))),
        ('or', q('exists', 0, j(1, P)), q('bind', 2, ('or', v(3), q('exists', 4, j(5, P))))),
    ]

def fill(sk, names):
    """replace '#i' by names[i]"""
    if isinstance(sk, str): return names[int(sk[1:])] if sk.startswith('#') else tuple(map(ord, sk))
    op = sk[0]
    if op in ('true', 'false'): return sk
    if op in ('var',): return ('var', fill(sk[1], names))
    if op == 'prop': return ('prop', names['P'] if sk[1] == 'P' else names['Q'])
    if op == 'wild': return ('wild', tuple(map(ord, sk[1])))
    if op == 'jump': return ('jump', fill(sk[1], names), fill(sk[2], names))
    if op in S.QUANT: return (op, fill(sk[1], names), None if sk[2] is None else tuple(map(ord, sk[2])), fill(sk[3], names))
    return (op,) + tuple(fill(c, names) for c in sk[1:])

def nslots(sk):
    if isinstance(sk, str): return int(sk[1:]) + 1 if sk.startswith('#') else 0
    return max([nslots(c) for c in sk[1:] if isinstance(c, (tuple, str))] + [0])

def name_eq(ctx, a, b):
    """decide (forking) whether two names (tuples of chars) are equal"""
    if len(a) != len(b): return False
    cs = []
    for x, y in zip(a, b):
        if isinstance(x, int) and isinstance(y, int):
            if x != y: return False
        else: cs.append((x if z3.is_expr(x) else z3.BitVecVal(x, 32)) == (y if z3.is_expr(y) else z3.BitVecVal(y, 32)))
    return ctx.ask(z3.And(cs)) if cs else True

def oracle_rename(ctx, phi, netvars):
    """scope checker + canonical renaming by nesting depth.  Returns (ok, renamed tree | reason, max nesting depth)"""
    maxd = [0]
    def go(t, env):     # env: list of (name, depth) innermost last
        op = t[0]
        if op == 'var':
            for nm, d in reversed(env):
                if name_eq(ctx, t[1], nm): return ('var', tuple(map(ord, 'x' * d)))
            raise R.Reject('free variable')
        if op == 'prop':
            for nv in netvars:
                if name_eq(ctx, t[1], tuple(map(ord, nv))): return t
            raise R.Reject('unknown proposition')
        if op in ('true', 'false', 'wild'): return t
        if op == 'jump':
            body = go(t[2], env)
            for nm, d in reversed(env):
                if name_eq(ctx, t[1], nm): return ('jump', tuple(map(ord, 'x' * d)), body)
            raise R.Reject('jump to an unbound variable')
        if op in S.QUANT:
            for nm, d in env:
                if name_eq(ctx, t[1], nm): raise R.Reject('variable re-quantified inside its own scope')
            d = len(env) + 1; maxd[0] = max(maxd[0], d)
            return (op, tuple(map(ord, 'x' * d)), t[2], go(t[3], env + [(t[1], d)]))
        return (op,) + tuple(go(c, env) for c in t[1:])
    try: return True, go(phi, []), maxd[0]
    except R.Reject as e: return False, str(e), None

def sc_c07(ctx, p):
    I = interp(); I.ctx = ctx; I.steps = 0
    sks = skeletons()
    if p.get('only') is not None: sks = [sks[i] for i in p['only']]
    sk = sks[ctx.choose(len(sks), 'skeleton')]
    names = Names(ctx)
    ns = {i: tuple(names.fresh(p.get('len', 1))) for i in range(nslots(sk))}
    from .mirsym import biomodel
    kk = p.get('k', 0)
    M = biomodel.Model(2, kk); biomodel.install(I, M)
    # the proposition slot: 2 symbolic characters, or (contexts with auxiliary variable sets) a symbolic name as long as
    # the names of the auxiliary BDD variables "<var>_extra_<j>", which are not network variables
    plen = 2 if not kk or ctx.choose(2, 'proposition length') == 0 else len(M.names[0]) + len('_extra_0')
    ns['P'] = tuple(names.fresh(plen)); ns['Q'] = tuple(map(ord, 'v1'))
    phi = fill(sk, ns)
    tree = TR.build(I, phi)
    r = I.run(I.fn('validate_props_and_rename_vars'), [tree, Ptr(Cell(biomodel.CtxObj(M)))])
    ok, exp, depth = oracle_rename(ctx, phi, M.names)
    out = {'ok': True, 'accepted': ok, 'group': 'skeleton ' + str(sks.index(sk) if p.get('only') is None else p['only'][sks.index(sk)])}
    def fail(why, m=None):
        m = m or ctx.model()
        out.update({'ok': False, 'why': why, 'tree': tree_to_json(_conc_tree(phi, m))}); return out
    if (r.variant == 0) != ok: return fail(f'preprocessing {"accepts" if r.variant == 0 else "rejects (" + show(r.fields[0].chars) + ")"}, specification {"accepts" if ok else "rejects: " + exp}')
    if not ok: return out
    got = TR.read(I, r.fields[0])
    okv, m = ctx.valid(_b(R.tree_eq(I, got, exp)))
    if not okv: return fail('renamed tree differs from the depth-named alpha-equivalent tree', m)
    st, h = TR.stored(I, r.fields[0])
    okv, m = ctx.valid(_b(I.equal(RString(st), RString(R.render(got)))))
    if not okv or h != R.height(got): return fail('stored text / height of the preprocessed tree inconsistent', m)
    # number of distinct names == maximal nesting depth (what check_hctl_var_support demands)
    hs = I.run(I.fn('collect_unique_hctl_vars'), [TR.build(I, got)])
    if len(hs.items) != depth: return fail(f'collect_unique_hctl_vars finds {len(hs.items)} names, nesting depth is {depth}')
    # idempotence
    r2 = I.run(I.fn('validate_props_and_rename_vars'), [TR.build(I, got), Ptr(Cell(biomodel.CtxObj(M)))])
    if r2.variant != 0: return fail('preprocessing its own output fails')
    okv, m = ctx.valid(_b(I.equal(r2.fields[0], r.fields[0])))
    if not okv: return fail('preprocessing is not idempotent', m)
    return out
SCENARIOS['c07'] = sc_c07

# ------------------------------------------------------------------ C09: canonisation and duplicate marking
def pre_family():
    """preprocessed formulas (variables named by depth); '?k' marks a variable occurrence to be bound by choice;
    labels 'L0','L1','L2' are symbolic (canon) or concrete (dups)"""
    def V(): return ('var', '?')
    P, Q = ('prop', 'v0'), ('prop', 'PROP')
    W0, W1 = ('wild', 'L0'), ('wild', 'L1')
    B = lambda op, body, d=None: (op, '#', d, body)
    J = lambda body: ('jump', '?', body)
    return [
        B('bind', ('and', ('AX', V()), ('AX', V()))),
        B('bind', B('exists', ('and', ('AX', V()), ('EF', V())))),
        ('and', B('bind', ('AX', V())), B('exists', ('AX', V()))),
        B('bind', ('and', B('bind', ('AX', V())), ('and', B('exists', ('and', ('EF', V()), V())), V()))),
        B('exists', B('exists', ('and', J(('and', ('not', V()), ('AX', V()))), J(('AX', V()))))),
        ('and', B('bind', ('AX', V()), 'L0'), ('AX', B('bind', ('AX', V()), 'L1'))),
        ('and', B('bind', ('and', P, ('AX', V())), 'L0'), ('AX', B('bind', ('AX', V()), 'L0'))),
        ('and', B('bind', ('AX', V()), 'L0'), B('bind', B('bind', ('and', ('AX', V()), ('AX', V())), 'L1'), 'L0')),
        ('and', ('EF', ('and', W0, Q)), ('AG', ('EF', ('and', W1, Q)))),
        B('forall', ('or', ('EX', ('and', V(), W0)), B('exists', J(('EX', ('and', V(), W1))), 'L2'))),
        ('and', B('forall', J(('AG', ('EF', ('and', V(), W0)))), 'L0'), B('forall', J(('AG', ('EF', ('and', V(), W0)))))),
        ('or', ('and', Q, ('EX', P)), ('and', ('EX', P), ('prop', 'V3'))),
        B('bind', ('and', ('and', B('bind', ('AX', V())), B('bind', ('and', ('EF', V()), V()))), V())),
        # twins that differ only in one operator / quantifier / label / proposition (compared literally)
        ('and', ('and', ('EW', W0, Q), ('not', ('AW', W0, Q))), ('and', ('EU', W0, Q), ('AU', W0, Q))),
        ('and', ('and', ('and', W0, Q), ('or', W0, Q)), ('and', ('xor', W0, Q), ('and', ('imp', W0, Q), ('iff', W0, Q)))),
        ('and', ('and', ('EX', Q), ('AX', Q)), ('and', ('and', ('EF', Q), ('AF', Q)), ('and', ('and', ('EG', Q), ('AG', Q)), ('not', Q)))),
        ('and', B('bind', ('AX', V())), ('and', B('exists', ('AX', V())), B('forall', ('AX', V())))),
        ('and', ('and', P, Q), ('and', ('and', W0, W1), ('and', ('true',), ('false',)))),
        # the same quantified sub-formula under two different domain labels / with and without a domain, per quantifier kind
        ('and', B('exists', J(('AX', V())), 'L0'), ('AX', B('exists', J(('AX', V())), 'L1'))),
        ('and', B('exists', J(('AX', V())), 'L0'), ('AX', B('exists', J(('AX', V()))))),
        ('and', B('forall', ('AX', V()), 'L0'), ('AX', B('forall', ('AX', V()), 'L1'))),
        ('and', B('bind', ('EF', V()), 'L0'), ('AX', B('bind', ('EF', V())))),
        # a sub-formula with two free variables repeated under nested domains that agree on the first and differ on the second
        # variable's domain (and the swapped assignment of the same two labels): identical domains of EVERY free variable
        ('and', B('bind', B('bind', ('and', ('AX', V()), ('EF', V())), 'L1'), 'L0'), B('bind', B('bind', ('and', ('AX', V()), ('EF', V())), 'L2'), 'L0')),
        ('and', B('exists', B('forall', ('and', ('AX', V()), ('EF', V())), 'L1'), 'L0'), ('AX', B('exists', B('forall', ('and', ('AX', V()), ('EF', V())), 'L0'), 'L1'))),
    ]

class _First:
    def choose(self, n, tag=''): return 0

def bind_family(ctx, sk, labels, prop):
    """name binders by depth and let every '?' refer to one of the enclosing binders (a choice)"""
    o = lambda s_: tuple(map(ord, s_))
    def go(t, env):
        op = t[0]
        if op == 'var':
            if not env: return ('var', o('x'))
            return ('var', o('x' * env[ctx.choose(len(env), 'occ')]))
        if op == 'prop': return ('prop', prop if t[1] == 'PROP' else o(t[1]))
        if op == 'wild': return ('wild', labels[t[1]])
        if op in ('true', 'false'): return t
        if op == 'jump':
            tgt = env[ctx.choose(len(env), 'jmp')] if env else 1
            return ('jump', o('x' * tgt), go(t[2], env))
        if op in S.QUANT:
            d = len(env) + 1
            return (op, o('x' * d), None if t[2] is None else labels[t[2]], go(t[3], env + [d]))
        return (op,) + tuple(go(c, env) for c in t[1:])
    return go(sk, [])

def oracle_canon(phi):
    """independent canoniser on the AST: names by order of first introduction (binder or free occurrence); returns
    (canonical AST with names var<i>, mapping original name -> canonical name as used for FREE occurrences / last binding)"""
    o = lambda s_: tuple(map(ord, s_))
    cnt = [0]; m = {}
    def fresh():
        cnt[0] += 1; return o(f'var{cnt[0] - 1}')
    def go(t):
        op = t[0]
        if op == 'var':
            if t[1] not in m: m[t[1]] = fresh()
            return ('var', m[t[1]])
        if op in ('prop', 'wild', 'true', 'false'): return t
        if op == 'jump':
            if t[1] not in m: m[t[1]] = fresh()
            nm = m[t[1]]
            return ('jump', nm, go(t[2]))
        if op in S.QUANT:
            m[t[1]] = fresh(); nm = m[t[1]]
            return (op, nm, t[2], go(t[3]))
        return (op,) + tuple(go(c) for c in t[1:])
    r = go(phi)
    return r, dict(m)

def free_vars_ast(t, bound=frozenset()):
    op = t[0]
    if op == 'var': return set() if t[1] in bound else {t[1]}
    if op in ('prop', 'wild', 'true', 'false'): return set()
    if op == 'jump': return (set() if t[1] in bound else {t[1]}) | free_vars_ast(t[2], bound)
    if op in S.QUANT: return free_vars_ast(t[3], bound | {t[1]})
    r = set()
    for c in t[1:]: r |= free_vars_ast(c, bound)
    return r

def alpha_equiv(a, b):
    """independent decision: equal up to a consistent renaming of state variables; labels / propositions / operators
    literally (symbolic label characters give a z3 condition).  Returns python bool or z3 Bool."""
    fa, fb = {}, {}; conds = []
    def name_cond(x, y):
        if len(x) != len(y): return False
        cs = []
        for c, d in zip(x, y):
            if isinstance(c, int) and isinstance(d, int):
                if c != d: return False
            else: cs.append((c if z3.is_expr(c) else z3.BitVecVal(c, 32)) == (d if z3.is_expr(d) else z3.BitVecVal(d, 32)))
        if cs: conds.append(z3.And(cs))
        return True
    def var(x, y, ea, eb):
        ia = next((i for i in range(len(ea) - 1, -1, -1) if ea[i] == x), None)
        ib = next((i for i in range(len(eb) - 1, -1, -1) if eb[i] == y), None)
        if ia is not None or ib is not None: return ia == ib
        if x in fa or y in fb: return fa.get(x) == fb.get(y) and x in fa and y in fb
        fa[x] = fb[y] = len(fa); return True
    def go(s, t, ea, eb):
        if s[0] != t[0]: return False
        op = s[0]
        if op == 'var': return var(s[1], t[1], ea, eb)
        if op in ('prop', 'wild'): return name_cond(s[1], t[1])
        if op in ('true', 'false'): return True
        if op == 'jump': return var(s[1], t[1], ea, eb) and go(s[2], t[2], ea, eb)
        if op in S.QUANT:
            if (s[2] is None) != (t[2] is None): return False
            if s[2] is not None and not name_cond(s[2], t[2]): return False
            return go(s[3], t[3], ea + [s[1]], eb + [t[1]])
        return all(go(x, y, ea, eb) for x, y in zip(s[1:], t[1:]))
    if not go(a, b, [], []): return False
    alpha_equiv.last_pairs = sorted((fa[k], k, next(y for y in fb if fb[y] == fa[k])) for k in fa)
    return z3.And(conds) if conds else True

def var_occurrences(t):
    """variable names at the {..} occurrences of the printed formula, in textual order, with their role"""
    op = t[0]
    if op == 'var': return [('occ', t[1])]
    if op in ('prop', 'wild', 'true', 'false'): return []
    if op == 'jump': return [('jump', t[1])] + var_occurrences(t[2])
    if op in S.QUANT: return [('bind', t[1])] + var_occurrences(t[3])
    out = []
    for c in t[1:]: out += var_occurrences(c)
    return out

def binder_of_occurrences(t):
    """for every {..} occurrence in textual order: an identifier of what it refers to (binder index or ('free', name))"""
    out = []; cnt = [0]
    def go(t, env):
        op = t[0]
        if op == 'var': out.append(env.get(t[1], ('free', t[1])))
        elif op in ('prop', 'wild', 'true', 'false'): pass
        elif op == 'jump': out.append(env.get(t[1], ('free', t[1]))); go(t[2], env)
        elif op in S.QUANT:
            b = ('b', cnt[0]); cnt[0] += 1; out.append(b); go(t[3], {**env, t[1]: b})
        else:
            for c in t[1:]: go(c, env)
    go(t, {})
    return out

def all_subtrees(t):
    out = [t]
    op = t[0]
    if op in S.QUANT: out += all_subtrees(t[3])
    elif op == 'jump': out += all_subtrees(t[2])
    elif op not in ('var', 'prop', 'wild', 'true', 'false'):
        for c in t[1:]: out += all_subtrees(c)
    return out

def split_braces(chars):
    """(skeleton with every {name} replaced by {}, list of names) -- names must be concrete"""
    skel, names, i = [], [], 0
    while i < len(chars):
        c = chars[i]
        if c == 123:
            j = i + 1
            while chars[j] != 125: j += 1
            names.append(tuple(chars[i + 1:j])); skel += [123, 125]; i = j + 1
        else: skel.append(c); i += 1
    return skel, names

def canon_consistent(I, ctx, ast, text, c_str, ren):
    """naming-scheme independent obligations on one canonical form: same text outside the braces; occurrences that refer to
    the same binder / free variable get the same canonical name and different ones different names; the renaming maps every
    free variable to the name used at its occurrences, injectively"""
    sk0, n0 = split_braces(list(text)); sk1, n1 = split_braces(list(c_str.chars))
    okv, m = ctx.valid(_b(I.equal(RString(sk0), RString(sk1))))
    if not okv: return 'canonisation changes the text outside the variable names', m
    if len(n0) != len(n1): return 'canonisation changes the number of variable occurrences', None
    it = iter(n1)
    def ren_ast(t):
        op = t[0]
        if op == 'var': return ('var', next(it))
        if op in ('prop', 'wild', 'true', 'false'): return t
        if op == 'jump':
            nm = next(it); return ('jump', nm, ren_ast(t[2]))
        if op in S.QUANT:
            nm = next(it); return (op, nm, t[2], ren_ast(t[3]))
        return (op,) + tuple(ren_ast(c) for c in t[1:])
    cast = ren_ast(ast)
    # the canonical form must be an alpha-variant of the sub-formula (no capture, no merged or split variables)
    ae = alpha_equiv(ast, cast)
    if ae is False or (ae is not True and not ctx.valid(ae)[0]): return 'the canonical form is not a consistent renaming of the sub-formula (variables merged, split or captured)', None
    fmap = {a_: b_ for _, a_, b_ in alpha_equiv.last_pairs}
    fv = free_vars_ast(ast)
    for v_ in fv:
        if ren.get(v_) != fmap.get(v_): return f'renaming of free variable {show(v_)} is {show(ren.get(v_, ()))}, but its occurrences are named {show(fmap.get(v_, ()))}', None
    if len({ren[v_] for v_ in fv}) != len(fv): return 'renaming is not injective on the free variables', None
    return None, None

def sc_c09_canon(ctx, p):
    I = interp(); I.ctx = ctx; I.steps = 0
    fam = pre_family()
    names = Names(ctx)
    labels = {f'L{i}': tuple(names.fresh(1)) for i in range(3)}
    prop = tuple(names.fresh(2, keyword_free=True))
    i1 = ctx.choose(len(fam), 'tree1')
    t1 = bind_family(ctx, fam[i1], labels, prop)
    subs = all_subtrees(t1)
    if p.get('pair'):
        sec = [0, 2, 5, 9, 11]
        i2 = sec[ctx.choose(len(sec), 'tree2')]
        subs = subs + all_subtrees(bind_family(_First(), fam[i2], labels, prop))      # second tree: default binding
    out = {'ok': True, 'group': i1}
    def fail(why, m, *asts):
        m = m or ctx.model()
        out.update({'ok': False, 'why': why, 'trees': [tree_to_json(_conc_tree(a, m)) for a in asts]}); return out
    canon = []
    for s_ in subs:
        text = R.render(s_)
        r = I.run(I.fn('get_canonical_and_renaming'), [RString(text)])
        c_str, ren = r.fields[0], r.fields[1]
        why, m = canon_consistent(I, ctx, s_, text, c_str, {tuple(k.chars): tuple(v.chars) for k, v in ren.items})
        if why: return fail(why, m, s_)
        # idempotence
        r2 = I.run(I.fn('get_canonical'), [RString(c_str.chars)])
        okv, m = ctx.valid(_b(I.equal(r2, c_str)))
        if not okv: return fail('canonising a canonical form changes it', m, s_)
        canon.append(c_str)
    # same canonical form  <=>  equal up to renaming
    n = len(subs)
    for a in range(n):
        for b in range(a + 1, n):
            same = _b(I.equal(canon[a], canon[b])); alpha = _b(alpha_equiv(subs[a], subs[b]))
            okv, m = ctx.valid(same == alpha)
            if not okv: return fail('same canonical form <=> equal up to renaming fails', m, subs[a], subs[b])
    out['subs'] = n
    return out
SCENARIOS['c09_canon'] = sc_c09_canon

def occurrences(trees):
    """every sub-tree occurrence with the domains of the enclosing quantifiers: list of (ast, {name: domain})"""
    out = []
    def go(t, doms):
        out.append((t, dict(doms)))
        op = t[0]
        if op in S.QUANT: go(t[3], {**doms, t[1]: t[2]})
        elif op == 'jump': go(t[2], doms)
        elif op not in ('var', 'prop', 'wild', 'true', 'false'):
            for c in t[1:]: go(c, doms)
    for t in trees: go(t, {})
    return out

def dup_key(ast, doms):
    """(canonical text, domains of the free variables under canonical names) -- by the independent canoniser"""
    exp, emap = oracle_canon(ast)
    fv = free_vars_ast(ast)
    return (show(R.render(exp)), tuple(sorted((show(emap[v_]), None if doms.get(v_) is None else show(doms[v_])) for v_ in fv)))

def check_dups(dups, trees):
    """every reported duplicate with counter m occurs at least m+1 times (up to renaming, identical domains of free vars).
    The reported canonical text is parsed with the reference parser and matched by alpha-equivalence (no naming scheme assumed)."""
    occ = occurrences(trees)
    I = interp()
    for (f, dm, m) in dups:
        try: fast = R.parse(I, [ord(c) for c in f], True)
        except R.Reject: return f'reported duplicate {f!r} is not a formula'
        dmap = {tuple(map(ord, k)): v for k, v in dm}
        cnt = 0
        for a, doms in occ:
            if alpha_equiv(fast, a) is not True: continue
            pairs = alpha_equiv.last_pairs           # (index, name in f, name in a)
            ok = len(pairs) == len(dmap)
            for _, nf, na in pairs:
                d_occ = doms.get(na); d_occ = None if d_occ is None else show(d_occ)
                if nf not in dmap or dmap[nf] != d_occ: ok = False
            cnt += ok
        if cnt < m + 1: return f'duplicate {f!r} with domains {dict(dm)} and counter {m} occurs only {cnt} times (up to renaming, with identical domains of its free variables)'
    return None

def sc_c09_dups(ctx, p):
    I = interp(); I.ctx = ctx; I.steps = 0
    I.order_mode = 'global'
    try:
        fam = pre_family()
        o = lambda s_: tuple(map(ord, s_))
        labels = {'L0': o('d1'), 'L1': o('d2'), 'L2': o('d1')}
        k = p.get('k', 1)
        idx = [ctx.choose(len(fam), 'tree0')]
        for j in range(1, k):
            sec = p.get('second') or list(range(len(fam)))
            idx.append(sec[ctx.choose(len(sec), f'tree{j}')])
        trees = [bind_family(ctx, fam[i], labels, o('v1')) for i in idx]
        vec = RVec([TR.build(I, t) for t in trees])
        r = I.run(I.fn('mark_duplicates_canonized_multiple'), [Ptr(Cell(vec))])
        dups = []
        for key, n in r.items:
            f = show(key.fields[0].chars); dm = [(show(a.chars), None if b.variant == 0 else show(b.fields[0].chars)) for a, b in key.fields[1].items]
            dups.append((f, dm, n))
        out = {'ok': True, 'group': idx[0], 'ndups': len(dups)}
        why = check_dups(dups, trees)
        if why: out.update({'ok': False, 'why': why, 'trees': [tree_to_json(t) for t in trees]})
        return out
    finally: I.order_mode = 'perm'
SCENARIOS['c09_dups'] = sc_c09_dups

# ------------------------------------------------------------------ C08: meaning-preserving rewrites vanish in preprocessing
def c08_bases():
    o = lambda s_: tuple(map(ord, s_))
    a, b, c = ('var', 'A'), ('var', 'B'), ('var', 'C')
    P0, P1 = ('prop', o('v0')), ('prop', o('v1'))
    return [
        ('bind', 'A', None, ('AG', ('EF', a))),
        ('bind', 'A', None, ('exists', 'B', None, ('and', ('jump', 'A', ('and', ('not', b), ('AX', a))), ('jump', 'B', ('AX', b))))),
        ('forall', 'A', o('d'), ('imp', ('EU', P0, ('or', a, ('true',))), ('AF', ('and', ('wild', o('w')), ('false',))))),
        ('and', ('bind', 'A', None, ('AX', a)), ('exists', 'B', None, ('EF', ('and', b, P1)))),
        ('iff', ('EX', P0), ('xor', ('AG', P1), ('not', ('true',)))),
        ('exists', 'A', None, ('forall', 'B', None, ('bind', 'C', None, ('or', ('EW', a, b), ('jump', 'B', ('EX', c)))))),
    ]

def c08_pieces(phi, opt, names):
    """lexeme pieces of a formula text.  opt: dict with 'long' (set of positions printed with long operator names),
    'const' (spelling index), 'paren' (position wrapped in an extra pair of parentheses); names: var -> char tuple"""
    pos = [0]
    def go(t):
        me = pos[0]; pos[0] += 1
        op = t[0]
        if op == 'true': r = [['true', 'True', '1'][opt.get('const', 0)]]
        elif op == 'false': r = [['false', 'False', '0'][opt.get('const', 0)]]
        elif op == 'prop': r = [list(t[1])]
        elif op == 'var': r = ['{', list(names[t[1]]), '}']
        elif op == 'wild': r = ['%', list(t[1]), '%']
        elif op == 'not': r = ['(', '~'] + go(t[1]) + [')']
        elif op in R.UN_KW: r = ['(', op, ' '] + go(t[1]) + [')']
        elif op in R.SYM: r = ['('] + go(t[1]) + [R.SYM[op]] + go(t[2]) + [')']
        elif op in R.BIN_KW: r = ['('] + go(t[1]) + [' ', op, ' '] + go(t[2]) + [')']
        else:
            long_ = me in opt.get('long', ())
            sym = {'bind': '\\bind', 'exists': '\\exists', 'forall': '\\forall', 'jump': '\\jump'}[op] if long_ else R.HSYM[op]
            head = [sym] + ([' '] if long_ else []) + ['{', list(names[t[1]]), '}']
            if op == 'jump': r = ['('] + head + [':'] + go(t[2]) + [')']
            else: r = ['('] + head + ([] if t[2] is None else [' ', 'in', ' ', '%', list(t[2]), '%']) + [':'] + go(t[3]) + [')']
        if opt.get('paren') == me: r = ['('] + r + [')']
        return r
    return go(phi)

GLUE = {('{', None), (None, '}'), ('%', None), (None, '%')}
def pieces_text(pieces, ws=None):
    """characters; ws: dict boundary index -> list of (symbolic) whitespace characters inserted there.  No insertion is
    possible inside {name} / %name% (the grammar forbids whitespace there)"""
    out = []
    for i, p in enumerate(pieces):
        if ws and i in ws: out.extend(ws[i])
        out.extend(p if isinstance(p, list) else [ord(c) for c in p])
    return out
def boundaries(pieces):
    """indices i such that whitespace may be inserted before piece i"""
    ok = []
    for i in range(1, len(pieces)):
        a, b = pieces[i - 1], pieces[i]
        if a in ('{', '%') and isinstance(b, list): continue      # after the opening delimiter of a name
        if isinstance(a, list) and b in ('}', '%') and i >= 2 and pieces[i - 2] in ('{', '%'): continue   # before the closing delimiter
        if isinstance(a, str) and a.startswith('\\'): continue   # '\bind' must be followed by its own space piece
        ok.append(i)
    return ok

def ws_domain(c):
    from .mirsym.interp import WS_ASCII, REPS
    return z3.Or([c == x for x in (9, 10, 13, 32)] + [c == r[0] for r in REPS if r[1]])

LEVEL = {'iff': 0, 'imp': 1, 'or': 2, 'xor': 3, 'and': 4, 'EU': 5, 'AU': 5, 'EW': 5, 'AW': 5}
def min_paren(t, top=True):
    """text with the fewest parentheses the documented precedence / right-associativity allows"""
    def lvl(x):
        op = x[0]
        if op in LEVEL: return LEVEL[op]
        if op in ('not',) or op in R.UN_KW: return 6
        if op in ('bind', 'exists', 'forall', 'jump'): return -1
        return 7
    def wrap(x, need): return '(' + go(x, True) + ')' if need else go(x, False)
    def go(x, start):
        op = x[0]
        if op == 'true': return 'true'
        if op == 'false': return 'false'
        if op == 'prop': return ''.join(chr(c) for c in x[1])
        if op == 'var': return '{' + x[1] + '}'
        if op == 'wild': return '%' + ''.join(chr(c) for c in x[1]) + '%'
        if op == 'not': return '~' + wrap(x[1], lvl(x[1]) < 6)
        if op in R.UN_KW: return op + ' ' + wrap(x[1], lvl(x[1]) < 6)
        if op in LEVEL:
            l = LEVEL[op]; sym = R.SYM.get(op, op)
            return wrap(x[1], lvl(x[1]) <= l) + ' ' + sym + ' ' + wrap(x[2], lvl(x[2]) < l)
        if op == 'jump': return '@{' + x[1] + '}: ' + go(x[2], True)
        d = '' if x[2] is None else ' in %' + ''.join(chr(c) for c in x[2]) + '%'
        return R.HSYM[op] + '{' + x[1] + '}' + d + ': ' + go(x[3], True)
    return go(t, True)

def c08_minparen_bases():
    o = lambda s_: tuple(map(ord, s_))
    a, b, c, d = [('prop', o(f'v{i % 2}')) for i in range(4)]
    W = ('wild', o('w'))
    out = []
    T4 = ['EU', 'AU', 'EW', 'AW']
    for o1 in T4:
        for o2 in T4: out += [(o1, a, (o2, W, b)), (o1, (o2, a, W), b)]
    B5 = ['iff', 'imp', 'or', 'xor', 'and']
    for o1 in B5 + ['EU', 'AW']:
        for o2 in B5 + ['AU']: out += [(o1, a, (o2, b, W)), (o1, (o2, a, b), W)]
    out += [('not', ('EU', a, b)), ('EU', ('not', a), ('EX', b)), ('AG', ('and', a, W)), ('and', ('AG', a), W), ('bind', 'A', None, ('and', ('var', 'A'), ('exists', 'B', None, ('EU', ('var', 'B'), ('var', 'A'))))),
            ('and', a, ('bind', 'A', None, ('EX', ('var', 'A')))), ('EX', ('bind', 'A', None, ('AX', ('var', 'A')))), ('iff', ('imp', a, b), ('or', ('xor', a, W), ('and', b, ('AW', a, ('EU', b, W)))))]
    return out

def full_paren(t):
    op = t[0]
    if op == 'true': return 'true'
    if op == 'false': return 'false'
    if op == 'prop': return ''.join(chr(c) for c in t[1])
    if op == 'var': return '{' + t[1] + '}'
    if op == 'wild': return '%' + ''.join(chr(c) for c in t[1]) + '%'
    if op == 'not': return '(~' + full_paren(t[1]) + ')'
    if op in R.UN_KW: return '(' + op + ' ' + full_paren(t[1]) + ')'
    if op in LEVEL: return '(' + full_paren(t[1]) + ' ' + R.SYM.get(op, op) + ' ' + full_paren(t[2]) + ')'
    if op == 'jump': return '(@{' + t[1] + '}: ' + full_paren(t[2]) + ')'
    d = '' if t[2] is None else ' in %' + ''.join(chr(c) for c in t[2]) + '%'
    return '(' + R.HSYM[op] + '{' + t[1] + '}' + d + ': ' + full_paren(t[3]) + ')'

def sc_c08(ctx, p):
    I = interp(); I.ctx = ctx; I.steps = 0
    from .mirsym import biomodel
    M = biomodel.Model(2, 0); biomodel.install(I, M)
    if p['kind'] == 'minparen':
        mb = c08_minparen_bases(); bi = ctx.choose(len(mb), 'base'); phi = mb[bi]
        base_text = [ord(ch) for ch in full_paren(phi)]; text = [ord(ch) for ch in min_paren(phi)]
        cx = Ptr(Cell(biomodel.CtxObj(M)))
        r0 = I.run(I.fn('parse_and_minimize_extended_formula'), [cx, RStr(base_text)])
        r1 = I.run(I.fn('parse_and_minimize_extended_formula'), [cx, RStr(text)])
        out = {'ok': True, 'group': 'minimal parentheses'}
        if r0.variant != 0 or r1.variant != 0 or I.equal(r0.fields[0], r1.fields[0]) is not True:
            out.update({'ok': False, 'why': 'text with minimal parentheses preprocesses differently from the fully parenthesised text', 'text': show(text), 'base': show(base_text)})
        return out
    bases = c08_bases()
    bi = ctx.choose(len(bases), 'base'); phi = bases[bi]
    o = lambda s_: tuple(map(ord, s_))
    base_names = {'A': o('a'), 'B': o('b'), 'C': o('c')}
    base_text = pieces_text(c08_pieces(phi, {}, base_names))
    kind = p['kind']
    opt = {}; names = dict(base_names); ws = None
    npos = R.count_nodes(_plain(phi))
    if kind == 'ws':
        pcs = c08_pieces(phi, {}, base_names); bs = boundaries(pcs) + [0, len(pcs)]
        ws = {}
        for j in range(p.get('n', 2)):
            i = bs[ctx.choose(len(bs), f'ws{j}')]
            ch = z3.BitVec(f'ws{j}', 32); ctx.assume(ws_domain(ch)); ws.setdefault(i, []).append(ch)
        text = pieces_text(pcs + [''], ws)
    else:
        if kind == 'paren': opt['paren'] = ctx.choose(npos, 'paren')
        if kind == 'spell':
            opt['long'] = {i for i in range(npos) if ctx.choose(2, f'long{i}')} if npos <= 9 else {ctx.choose(npos, 'long')}
            opt['const'] = ctx.choose(3, 'const')
        if kind == 'rename':
            nm = Names(ctx)
            L = p.get('len', 1)
            new = {k: tuple(nm.fresh(L)) for k in ('A', 'B', 'C')}
            ks = list(new)
            for x in range(3):
                for y in range(x + 1, 3): ctx.assume(z3.Or([new[ks[x]][j] != new[ks[y]][j] for j in range(L)]))
            names = new
        text = pieces_text(c08_pieces(phi, opt, names))
    cx = Ptr(Cell(biomodel.CtxObj(M)))
    r0 = I.run(I.fn('parse_and_minimize_extended_formula'), [cx, RStr(base_text)])
    r1 = I.run(I.fn('parse_and_minimize_extended_formula'), [cx, RStr(text)])
    out = {'ok': True, 'group': bi}
    if r0.variant != 0: out.update({'ok': False, 'why': 'base formula rejected: ' + show(r0.fields[0].chars), 'text': show(base_text), 'base': show(base_text)}); return out
    okv, m = (False, None) if r1.variant != 0 else ctx.valid(_b(I.equal(r0.fields[0], r1.fields[0])))
    if not okv:
        m = m or ctx.model()
        out.update({'ok': False, 'why': ('variant rejected: ' + show(r1.fields[0].chars)) if r1.variant != 0 else 'preprocessed tree differs from that of the base formula',
                    'text': concretize(m, text), 'base': show(base_text)})
    return out
SCENARIOS['c08'] = sc_c08

def _plain(phi):
    """AST with names as tuples (for node counting)"""
    op = phi[0]
    if op in ('true', 'false', 'prop', 'wild'): return phi
    if op == 'var': return ('var', (0,))
    if op == 'jump': return ('jump', (0,), _plain(phi[2]))
    if op in S.QUANT: return (op, (0,), phi[2], _plain(phi[3]))
    return (op,) + tuple(_plain(c) for c in phi[1:])

# ------------------------------------------------------------------ C14: errors, never panics, never silent answers
_LABS = {}
def c14_lab(k):
    from . import evalnode as EN
    from .run import Check
    if k not in _LABS:
        chk = Check.__new__(Check); chk.functions = set(); chk.models = set(); chk.paths = 0; chk.queries = 0; chk.unwinding = {'assertions': 0, 'unsat': 0}
        chk.note_functions = lambda names: chk.functions.update(names)
        _LABS[k] = EN.EvalLab(chk, 2, k, 0, labels=['w', 'd'])
    lab = _LABS[k]
    from .mirsym import biomodel
    biomodel.install(lab.I, lab.M)          # the interpreter is shared between labs of different k
    lab.I.intercept = {}
    from .evalnode import LOOP_KERNELS
    for kname in LOOP_KERNELS: lab.I.intercept[kname] = lab._kernel(kname)
    lab.I.intercept['compute_attractor_states'] = lab._attractors
    return lab

def classify(I, ctx, chars, present, k, netvars=('v0', 'v1'), extended=True):
    """expected outcome of the string entry points: ('err', reason) | ('ok', tree)"""
    try: tree = R.parse(I, chars, extended)
    except R.Reject as e: return ('err', 'syntax: ' + str(e))
    ok, res, depth = oracle_rename(ctx, tree, list(netvars))
    if not ok: return ('err', res)
    if depth > k: return ('err', f'{depth} nested variables but only {k} spare variable sets')
    for lab_ in _labels_of(tree):
        found = False
        for pl in present:
            if name_eq(ctx, lab_, tuple(map(ord, pl))): found = True; break
        if not found: return ('err', 'wild-card / domain without a context set')
    return ('ok', tree)

def _labels_of(t):
    op = t[0]
    if op == 'wild': return [t[1]]
    if op in ('true', 'false', 'prop', 'var'): return []
    if op == 'jump': return _labels_of(t[2])
    if op in S.QUANT: return ([t[2]] if t[2] is not None else []) + _labels_of(t[3])
    out = []
    for c in t[1:]: out += _labels_of(c)
    return out

C14_EXT = ['\\forall {x} in %d%: AX {x}', '\\exists {x} in %d%: @{x}: v0', '\\bind {x} in %d%: {x}', 'v0 & (\\forall {x} in %d%: {x})', '(!{a}: AX {a}) & (V{b}: {b}) & (3{c}: @{c}: v0)', '!{a}: (3{b}: {b}) | (3{c}: !{e}: {c} & {e})', '%w%', '!{x} in %d%: AX {x}', '3{x} in %d%: @{x}: (%w% & EF {x})', 'V{x}: !{y}: 3{z}: ({x} | {y} | {z} | %w%)', 'v0 & ~v1', '!{x}: !{y} in %d%: ({x} & {y})', 'EX %d%', '!{x} in %w%: %d%', '3{x} in %d%: (EX %w% & AX EX %w%)', '!{x} in %d%: ((AX %w%) | (AX %w%))']
C14_TEMPLATES = ['(!{a}: AX {a}) | (3{b}: @{b}: EF {b})', '(V{a}: AX {a}) & (3{b}: EF {b})', '!{x}: AG EF {x}', '3{x} in %d%: @{x}: (v0 & AX {x})', '(v0 EU ~v1) <=> %w%', 'V{a}: !{b}: ({a} | AF {b})', '\\bind {x}: EX (%w% ^ {x})', 'AG (v0 => EF true)']

def sc_c14(ctx, p):
    k = p['k']
    lab = c14_lab(k); I = lab.I; I.ctx = ctx; I.steps = 0
    ctx.fresh = True
    for pre in lab.pre: ctx.assume(pre)
    present = p.get('present', ['w', 'd'])
    mode = p['mode']
    if mode == 'chars':
        cs = [z3.BitVec(f'c{i}', 32) for i in range(p['L'])]
        for c in cs: ctx.assume(char_domain(c))
        grp = 0
    elif mode == 'context':
        ti = ctx.choose(len(C14_EXT), 'formula'); cs = [ord(ch) for ch in C14_EXT[ti]]; grp = ti
        present = [['w', 'd'], ['w'], ['d'], []][ctx.choose(4, 'present')]
    else:
        ti = ctx.choose(len(C14_TEMPLATES), 'template') if p.get('template') is None else p['template']
        base = [ord(ch) for ch in C14_TEMPLATES[ti]]; cs = list(base); grp = ti
        for j in range(p.get('edits', 1)):
            pos = ctx.choose(len(base), f'pos{j}')
            ch = z3.BitVec(f'e{j}', 32); ctx.assume(char_domain(ch)); cs[pos] = ch
    out = {'ok': True, 'group': grp}
    from .evalnode import result_sets
    try:
        fs = RVec([RStr(cs)])
        from .mirsym import biomodel
        if p.get('entry') == 'plain': r = I.run(I.fn('model_check_multiple_formulae'), [fs, Ptr(Cell(biomodel.GraphObj(lab.M)))])
        else: r = I.run(I.fn('model_check_multiple_extended_formulae'), [fs, Ptr(Cell(biomodel.GraphObj(lab.M))), Ptr(Cell(lab.context_map(present)))])
        got = 'ok' if r.variant == 0 else 'err'
        msg = '' if r.variant == 0 else show(r.fields[0].chars)
    except Panic as e:
        if not ctx.feasible(): raise Infeasible()
        out.update({'ok': False, 'why': 'panic: ' + str(e)[:200], 'text': concretize(ctx.model(), cs), 'k': k, 'present': present, 'entry': p.get('entry', 'ext')}); return out
    exp = classify(I, ctx, cs, present, k, extended=p.get('entry') != 'plain')
    out['cls'] = exp[0]; out['entry'] = p.get('entry', 'ext')
    if got != exp[0]:
        out.update({'ok': False, 'why': f'entry point answers {got} ({msg}) but the input is classified {exp[0]} ({exp[1] if exp[0] == "err" else "valid"})', 'text': concretize(ctx.model(), cs), 'k': k, 'present': present})
    return out
SCENARIOS['c14'] = sc_c14
