"""Kernel laboratory: the functions of hctl_operators_eval.rs executed from MIR in merge mode on the bit-vector library
model, for ALL transition systems with n variables (symbolic T), symbolic valid-colour mask and symbolic argument sets."""
import time, z3
from . import front, uni
from .mirsym.interp import Interp, FnItem, Unsupported
from .mirsym import biomodel, merge
from .oracle import sem as S

_I = None
def interp():
    global _I
    if _I is None:
        mirf, info = front.mir('lib')
        _I = Interp(front.REPO, mirf); _I.mir_info = info
    return _I

class Lab:
    def __init__(self, chk, n, c=0, k=0, timeout_ms=120000, tag=''):
        self.chk, self.n, self.c, self.k, self.timeout_ms = chk, n, c, k, timeout_ms
        self.I = interp()
        self.U = z3.BitVec(tag + 'U', 1 << c) if c else None
        self.M = biomodel.Model(n, k, c, unit_colours=self.U, prefix=tag)
        self.G = biomodel.GraphObj(self.M)
        self.pre = list(self.M.defs)
        self.sets = {}
        self.cb = merge.VRef(FnItem('mc_utils::dont_track_progress'))
        self.steady = self.M.steady()
        self.tag = tag
    def set(self, name, inside_unit=True):
        """fresh symbolic argument set (independent of nothing: any subset of the unit set)"""
        x = z3.BitVec(self.tag + name, self.M.W)
        if inside_unit: self.pre.append((x & ~self.M.unit) == 0)
        self.sets[name] = x
        return x
    def unwind(self, fname):
        if 'saturated' in fname: return self.M.W + 2 if self.k == 0 else self.M.W + 2
        return (1 << self.n) + 2
    def run(self, name, args, graph=None):
        """execute kernel `name` (graph argument is added in front); unwinding assertions are discharged here"""
        ex = merge.MergeExec(self.I, self.M, self.unwind)
        fn = self.I.fn(name)
        a = [merge.VRef(graph or self.G)] + [merge.VRef(x) if z3.is_expr(x) else x for x in args]
        t = time.time()
        r = ex.run(fn, a)
        self.chk.note_functions(ex.functions)
        for d, g in ex.side:
            v = uni.decide(self.pre + [g], self.timeout_ms)
            self.chk.queries += 1
            if 'unwinding' in d:
                self.chk.unwinding['assertions'] += 1
                if v.status == 'unsat': self.chk.unwinding['unsat'] += 1
            if v.status == 'unknown':
                # not decided in time: the result term then only covers executions within the bound (a weaker, bounded claim)
                self.chk.obligation(f'side[{d}] n={self.n} c={self.c} [solver timeout: obligations on this result hold for executions within the loop bound only]', 'E-MIR/merge', 'timeout', v.seconds)
            elif v.status != 'unsat':
                self.chk.obligation(f'side[{d}] n={self.n} c={self.c}', 'E-MIR/merge', 'inconclusive' if 'unwinding' in d else 'violated', v.seconds)
                if v.status == 'sat' and 'unwinding' not in d:
                    raise Unsupported(f'side condition reachable: {d}')
        self.last_exec = ex
        return r
    def spec(self, phi, wild):
        """explicit semantics of phi (wild-cards = the symbolic sets in `wild`) as a set, intersected with the unit set.
        Only for k = 0."""
        M = self.M; n = self.n
        per = [None] * M.NS
        for col in range(1 << self.c):
            K = M.kripke(col, wild=lambda l, s, col=col: z3.Extract((col << n) | s, (col << n) | s, wild[l]) == 1)
            r = S.sem(K, phi)
            for s in range(1 << n): per[(col << n) | s] = r[s]
        return M.from_cs_bools(per) & M.unit
    def prove(self, name, claim, detail=None, extra_pre=(), twin=None):
        """claim: z3 Bool that must be valid under the preconditions.  Returns Verdict of pre & not claim."""
        v = uni.decide(self.pre + list(extra_pre) + [z3.Not(claim)], self.timeout_ms)
        self.chk.queries += 1
        nontrivial = True
        if twin is not None:
            tv = uni.decide(self.pre + list(extra_pre) + [z3.Not(twin)], self.timeout_ms)
            self.chk.queries += 1; self.chk.twin(tv.status == 'sat')
            nontrivial = tv.status == 'sat'
        return v, nontrivial

# ------------------------------------------------------------------ obligations with native replay
from . import replay as RP

def require(lab, name, claim, law, twin=None, signature='kernel', impl=None, spec=None, engine='E-MIR/merge', diff=None):
    """Prove `claim`; on a counterexample replay it natively.
    law: ('spec', phi) | ('eq', phiL, phiR) | ('sub', phiL, phiR) -- formulas over wild-cards named like lab.sets"""
    chk = lab.chk
    v, nontriv = lab.prove(name, claim, twin=twin)
    full = f'{name} [n={lab.n} c={lab.c} k={lab.k}]'
    if v.status == 'unsat':
        chk.obligation(full, engine, 'holds', v.seconds, nontriv, {'law': [law[0]] + [S.show(p) for p in law[1:]], 'n': lab.n, 'colour_bits': lab.c, 'verdict': 'unsat'})
        return True
    if v.status != 'sat':
        chk.obligation(full, engine, 'timeout', v.seconds); return False
    # counterexample -> concrete network of one colour
    w = None
    if impl is not None and spec is not None: diff = impl ^ spec
    if diff is not None: w = RP.kernel_witness(lab, v.model, diff)
    if w is None: w = first_witness(lab, v.model)
    chk.native_replays += 1
    res = native_law(lab.n, w['T'], w['sets'], law)
    if res['violated']:
        chk.obligation(full, engine, 'violated', v.seconds)
        chk.violation(full, signature, {'witness': {'T': {f'{i},{s}': t for (i, s), t in w['T'].items()}, 'sets': {k: sorted(x) for k, x in w['sets'].items()}}, 'law': [law[0]] + [S.show(p) for p in law[1:]], 'law_ast': list(law[1:]), 'native': res},
                      f"{name}: {res['what']}")
    else:
        print(f'  non-reproducing counterexample for {full}: {res}', flush=True)
        chk.obligation(full + ' (solver counterexample does not reproduce natively: model or encoding error)', engine, 'inconclusive', v.seconds)
    return False

def first_witness(lab, model):
    """colour 0 (or the first valid colour) of the model as a concrete network"""
    M = lab.M; n = lab.n; col = 0
    if lab.U is not None:
        uv = model.eval(lab.U, model_completion=True).as_long()
        col = next((c for c in range(1 << lab.c) if (uv >> c) & 1), 0)
    T = {}
    for i in range(n):
        tv = model.eval(M.T[i], model_completion=True).as_long()
        for s in range(1 << n): T[(i, s)] = bool((tv >> ((col << n) | s)) & 1)
    sets = {}
    for name, x in lab.sets.items():
        xv = model.eval(x, model_completion=True).as_long()
        sets[name] = {s for s in range(1 << n) if (xv >> ((col << n) | s)) & 1}
    return {'colour': col, 'T': T, 'sets': sets}

def native_law(n, T, sets, law):
    kind = law[0]
    out = {'violated': False, 'what': ''}
    if kind == 'spec':
        nat, spec, job = RP.run_concrete(n, T, sets, law[1])
        out.update({'native': sorted(nat) if isinstance(nat, set) else list(nat), 'expected': sorted(spec) if spec is not None else None, 'formula': S.show(law[1]), 'aeon': job['aeon']})
        if not isinstance(nat, set): out['violated'] = True; out['what'] = f'native run failed: {nat}'
        elif nat != spec: out['violated'] = True; out['what'] = f"native result of {S.show(law[1])} is states {sorted(nat)}, explicit semantics gives {sorted(spec)}"
        return out
    natL, _, job = RP.run_concrete(n, T, sets, law[1]); natR, _, _ = RP.run_concrete(n, T, sets, law[2])
    out.update({'left': sorted(natL) if isinstance(natL, set) else list(natL), 'right': sorted(natR) if isinstance(natR, set) else list(natR), 'aeon': job['aeon']})
    if not isinstance(natL, set) or not isinstance(natR, set): out['violated'] = True; out['what'] = 'native run failed'
    elif kind == 'eq' and natL != natR: out['violated'] = True; out['what'] = f'{S.show(law[1])} = {sorted(natL)} but {S.show(law[2])} = {sorted(natR)} natively'
    elif kind == 'sub' and not natL <= natR: out['violated'] = True; out['what'] = f'{S.show(law[1])} = {sorted(natL)} is not a subset of {S.show(law[2])} = {sorted(natR)} natively'
    return out
