"""Orchestration laboratory: the real entry points of model_checking.rs (parser, preprocessing, EvalContext, eval_node,
low-level operations, sanitizing) executed from MIR in fork mode on the bit-vector library model; the loop-carrying
kernels are executed in merge mode.  All transition systems with n variables at once (symbolic T)."""
import time, z3
from . import front, uni
from .mirsym.interp import (Interp, PathCtx, Ptr, Cell, Agg, RString, RStr, RVec, RMap, FnItem, PyFn, Panic, Unsupported, Infeasible, mkstr, mkref, show, explore)
from .mirsym import biomodel, merge
from .oracle import sem as S

_I = {}
def interp(kind='lib'):
    if kind not in _I:
        mirf, info = front.mir(kind)
        I = Interp(front.REPO, mirf); I.mir_info = info
        _I[kind] = I
    return _I[kind]

LOOP_KERNELS = ('eval_eu_saturated', 'eval_eg', 'eval_au', 'eval_eu', 'eval_ef')

class EvalLab:
    def __init__(self, chk, n, k, c=0, labels=(), max_perm=1, attractor='contract', timeout_ms=120000, symbolic_unit=True, order_mode='perm'):
        self.chk, self.n, self.k, self.c = chk, n, k, c
        self.I = interp()
        self.I.max_perm = max_perm; self.I.order_mode = order_mode
        self.U = z3.BitVec('U', 1 << c) if (c and symbolic_unit) else None
        self.M = biomodel.Model(n, k, c, unit_colours=self.U)
        biomodel.install(self.I, self.M)
        self.timeout_ms = timeout_ms
        self.pre = list(self.M.defs)
        if self.U is not None: self.pre.append(self.U != 0)     # the library rejects networks without a valid colour
        # wild-card / domain sets: arbitrary coloured sets over (colour, state), inside the unit set, independent of copies
        self.small = {}; self.sets = {}
        for l in labels: self.add_label(l)
        self.merge_stats = {'kernel_calls': 0, 'unwinding_assertions': 0}
        self.I.intercept = {}
        for kname in LOOP_KERNELS: self.I.intercept[kname] = self._kernel(kname)
        self.I.intercept['compute_attractor_states'] = self._attractors
        self.kernel_mode = 'merge'
    def add_label(self, l, term=None):
        if term is None:
            w = z3.BitVec('w_' + l, self.M.NS); self.small[l] = w
            self.sets[l] = self.M.expand_cs(w) & self.M.unit
        else: self.sets[l] = term; self.small[l] = None
    # ---- intercepts
    def unwind(self, fname):
        if 'saturated' in fname: return self.M.W + 2
        return (1 << self.n) + 2
    def _kernel(self, kname):
        def run(I, args):
            if self.kernel_mode != 'merge': return NotImplemented
            fn = I.fn(kname)
            ex = merge.MergeExec(I, self.M, self.unwind)
            def conv(a):
                v = a
                while isinstance(v, Ptr): v = v.get()
                return merge.VRef(v)
            r = ex.run(fn, [conv(a) for a in args])
            self.chk.note_functions(ex.functions)
            self.merge_stats['kernel_calls'] += 1
            for d, g in ex.side:
                ok, m = I.ctx.valid(z3.Not(g))
                if 'unwinding' in d:
                    self.chk.unwinding['assertions'] += 1; self.merge_stats['unwinding_assertions'] += 1
                    if ok: self.chk.unwinding['unsat'] += 1
                if not ok:
                    if 'unwinding' in d: raise Unsupported('unwinding bound insufficient: ' + d)
                    raise Panic(d)
            return r
        return run
    def _attractors(self, I, args):
        """contract stub of the library attractor search (ITGR + Xie-Beerel): the states of terminal SCCs of each colour,
        restricted to the given vertex set"""
        vertices = args[1]
        while isinstance(vertices, Ptr): vertices = vertices.get()
        I.models_used.add('compute_attractor_states (contract stub)')
        return self.attr_set() & vertices
    def attr_set(self):
        if not hasattr(self, '_attr'):
            M = self.M; per = [None] * M.NS
            phi = ('bind', 'x', None, ('AG', ('EF', ('var', 'x'))))
            for col in range(1 << self.c):
                r = S.sem(M.kripke(col), phi)
                for s in range(1 << self.n): per[(col << self.n) | s] = r[s]
            self._attr = M.from_cs_bools(per)
        return self._attr
    # ---- oracle
    def spec(self, phi, self_loops=True):
        M = self.M; n = self.n; per = [None] * M.NS
        for col in range(1 << self.c):
            def wild(l, s, col=col):
                w = self.small[l]
                if w is None: raise Unsupported('oracle: label with a non-symbolic set')
                return z3.Extract((col << n) | s, (col << n) | s, w) == 1
            r = S.sem(M.kripke(col, wild, self_loops), phi)
            for s in range(1 << n): per[(col << n) | s] = r[s]
        return M.from_cs_bools(per) & M.unit
    # ---- running entry points
    def context_map(self, labels):
        return RMap('HashMap', [[mkstr(l), self.sets[l]] for l in labels])
    def new_ctx(self, prefix=()):
        ctx = PathCtx(prefix, self.timeout_ms, fresh=True)
        for p in self.pre: ctx.assume(p)
        return ctx
    def call_entry(self, entry, texts, labels=(), graph=None):
        """run a string-based entry point of model_checking.rs from MIR; returns the Rust Result value"""
        I = self.I
        G = graph or biomodel.GraphObj(self.M)
        stg = Ptr(Cell(G))
        fs = RVec([mkref(t) for t in texts])
        cm = Ptr(Cell(self.context_map(labels)))
        if entry == 'multi_ext_dirty': return I.run(I.fn('model_check_multiple_extended_formulae_dirty'), [fs, stg, cm])
        if entry == 'multi_ext': return I.run(I.fn('model_check_multiple_extended_formulae'), [fs, stg, cm])
        if entry == 'ext_dirty': return I.run(I.fn('model_check_extended_formula_dirty'), [mkref(texts[0]), stg, cm])
        if entry == 'ext': return I.run(I.fn('model_check_extended_formula'), [mkref(texts[0]), stg, cm])
        if entry == 'multi_dirty': return I.run(I.fn('model_check_multiple_formulae_dirty'), [fs, stg])
        if entry == 'multi': return I.run(I.fn('model_check_multiple_formulae'), [fs, stg])
        if entry == 'formula_dirty': return I.run(I.fn('model_check_formula_dirty'), [mkref(texts[0]), stg])
        if entry == 'formula': return I.run(I.fn('model_check_formula'), [mkref(texts[0]), stg])
        if entry == 'unsafe_ex': return I.run(I.fn('model_check_formula_unsafe_ex'), [mkref(texts[0]), stg])
        raise KeyError(entry)
    def paths(self, scenario, max_paths=4000):
        """explore all paths of scenario(ctx) -> list of (outcome, value, ctx)"""
        out = []
        work = [[]]
        while work:
            prefix = work.pop()
            ctx = self.new_ctx(prefix); self.I.ctx = ctx; self.I.steps = 0
            try: v = scenario(ctx); o = 'ok'
            except Panic as e: v = str(e); o = 'panic'
            except Infeasible: work.extend(ctx.pending); continue
            work.extend(ctx.pending)
            # a path whose condition became unsatisfiable through assumptions is dropped
            if not ctx.feasible(): continue
            out.append((o, v, ctx)); self.chk.paths += 1; self.chk.queries += ctx.queries
            if len(out) > max_paths: raise Unsupported('path budget exhausted')
        self.chk.note_functions(self.I.executed); self.chk.models |= self.I.models_used
        return out

def result_sets(v):
    """Rust Result<Vec<Set>|Set, String> -> ('ok', [sets]) | ('err', message)"""
    if v.variant == 1: return 'err', show(v.fields[0].chars)
    x = v.fields[0]
    if isinstance(x, RVec): return 'ok', list(x.items)
    return 'ok', [x]
