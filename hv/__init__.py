"""hv - solver-based checking of biodivine-hctl-model-checker (see /verif/DESIGN.md)."""
