"""Parallel E-MIR orchestration obligations: each task runs a string-based entry point from MIR (fork mode, kernels in
merge mode) on one batch of formulas and lets z3 compare every result with the explicit semantics, for all transition
systems with n variables and all context sets.  Counterexamples are replayed natively by the parent process."""
import os, time, traceback, multiprocessing as mp
import z3
from . import front, replay as RP
from .oracle import sem as S

def _worker(task):
    from . import evalnode as EN
    from .run import Check
    from .mirsym.interp import Unsupported, show
    t0 = time.time()
    chk = Check.__new__(Check); chk.functions = set(); chk.models = set(); chk.paths = 0; chk.queries = 0
    chk.unwinding = {'assertions': 0, 'unsat': 0}
    chk.note_functions = lambda names: chk.functions.update(names)
    out = {'task': task, 'paths': [], 'error': None}
    try:
        phis = task['phis']
        labels = sorted(set().union(*[S.labels(f)[0] | S.labels(f)[1] for f in phis]) | set(task.get('extra_labels', ())))
        present = [l for l in labels if l not in task.get('drop_labels', ())]
        k = task['k']
        lab = EN.EvalLab(chk, task['n'], k, task.get('c', 0), labels=labels, max_perm=task.get('max_perm', 1), order_mode=task.get('order_mode', 'perm'), timeout_ms=task.get('timeout_ms', 60000))
        texts = task.get('texts') or [S.show(f) for f in phis]
        loops = task.get('self_loops', True)
        if task.get('assume_no_steady'): lab.pre.append(lab.M.steady() == 0)
        specs = [lab.spec(f, loops) for f in phis] if task.get('expect', 'ok') == 'ok' else None
        if task.get('expect') == 'pairs': specs = []
        entry = task['entry']
        cf = task.get('ctx_formulas') or {}
        def scenario(ctx):
            # context sets that are themselves raw results of closed sub-formulas (C10)
            for l, psi in cf.items():
                pl = sorted(S.labels(psi)[0] | S.labels(psi)[1])
                rr = lab.call_entry('multi_ext_dirty', [S.show(psi)], pl)
                kind, sets = EN.result_sets(rr)
                if kind != 'ok': raise Unsupported('context formula failed: ' + str(sets))
                lab.sets[l] = sets[0]
            if entry == 'eval_node_steady': return _eval_node_steady(lab, texts, present)
            return lab.call_entry(entry, texts, present + sorted(cf))
        ps = lab.paths(scenario)
        for o, v, ctx in ps:
            rec = {'outcome': o, 'decisions': len(ctx.taken), 'choices': [c for c in ctx.choices][:8]}
            if o == 'panic':
                rec['msg'] = v[:300]; rec['witness'] = _path_witness(lab, ctx)
            else:
                kind, sets = EN.result_sets(v)
                rec['kind'] = kind
                if kind == 'err':
                    rec['msg'] = sets; rec['witness'] = _path_witness(lab, ctx)
                elif specs is not None:
                    rec['results'] = []
                    if task.get('expect') == 'pairs': specs = [None] * 0
                    for i, (r, sp) in enumerate(zip(sets, specs)):
                        ts = time.time()
                        ok, m = ctx.valid(r == sp)
                        rr = {'i': i, 'holds': ok, 's': round(time.time() - ts, 3)}
                        if 'twin' in task and ok:
                            # reachability twin: a deliberately wrong conclusion must be refutable on this path
                            tw = lab.spec(task['twin'][i], loops)
                            okt, _ = ctx.valid(r == tw); rr['twin_sat'] = not okt
                        if not ok: rr['witness'] = _witness(lab, m, r, sp)
                        if task.get('check_unit') and ok:
                            ok2, m2 = ctx.valid(z3.And((r & ~lab.M.unit) == 0, lab.M.independent_of_copies(r)))
                            rr['inside_unit_and_independent'] = ok2
                            if not ok2: rr['holds'] = False; rr['witness'] = _witness(lab, m2, r, r & lab.M.unit)
                        rec['results'].append(rr)
                    for (i, j) in task.get('equal_pairs', ()):
                        ok, m = ctx.valid(sets[i] == sets[j])
                        rr = {'i': i, 'j': j, 'holds': ok, 's': 0.0, 'pair': True}
                        if not ok:
                            if entry == 'eval_node_steady':
                                # prefer a counterexample the public API can realise: real steady states vs the empty set
                                M_ = lab.M
                                cons = z3.And(z3.BitVec('STEADY1', M_.W) & M_.unit == M_.steady() & M_.unit, z3.BitVec('STEADY2', M_.W) & M_.unit == 0)
                                ok2, m2 = ctx.valid(z3.Or(z3.Not(cons), sets[i] == sets[j]))
                                if not ok2 and m2 is not None: m = m2; rr['realisable'] = True
                                elif ok2:
                                    # arbitrary steady-state arguments distinguish the results, the two the API can pass do not:
                                    # the property (stated through the public API) holds on this path
                                    rr['holds'] = True; rr['note'] = 'holds for the realisable steady-state arguments only'
                            if not rr['holds']: rr['witness'] = _witness(lab, m, sets[i], sets[j])
                        rec['results'].append(rr)
            # the path condition must be satisfiable (vacuity guard) -- checked in lab.paths
            out['paths'].append(rec)
        out['functions'] = sorted(chk.functions); out['models'] = sorted(chk.models); out['queries'] = chk.queries
        out['unwinding'] = chk.unwinding; out['kernel_calls'] = lab.merge_stats['kernel_calls']
    except Unsupported as e:
        if 'path budget exhausted' in str(e) and task.get('order_mode', 'perm') == 'perm' and task.get('max_perm', 1) > 1:
            # every permutation of every small container gave more paths than the budget: fall back to the three global order policies
            r2 = _worker(dict(task, order_mode='global', max_perm=1)); r2['task'] = task; r2['note'] = 'full permutations exceeded the path budget: three global iteration-order policies instead'
            return r2
        out['error'] = 'unsupported: ' + str(e)[:300]
    except Exception as e:
        out['error'] = 'error: ' + repr(e)[:300] + ' ' + traceback.format_exc()[-800:]
    out['s'] = round(time.time() - t0, 2)
    return out

def _eval_node_steady(lab, texts, present):
    """eval_node called directly with two different free symbolic sets as the steady-state argument; returns Ok([r1, r2])"""
    from .mirsym.interp import Ptr, Cell, Agg, RVec, RMap, FnItem, mkref
    from .mirsym import biomodel
    I = lab.I; M = lab.M
    outs = []
    for tag in ('1', '2'):
        st = z3.BitVec('STEADY' + tag, M.W)
        t = I.run(I.fn('parse_and_minimize_extended_formula'), [Ptr(Cell(biomodel.CtxObj(M))), mkref(texts[0])])
        if t.variant != 0: raise Unsupported('preprocessing failed')
        tree = t.fields[0]
        ec = I.run(I.fn('from_single_tree', 'EvalContext'), [Ptr(Cell(tree))])
        props = RMap('HashMap', [[__import__('hv.mirsym.interp', fromlist=['mkstr']).mkstr(l), lab.sets[l]] for l in present])
        I.run(I.fn('extend_context_with_wild_cards', 'EvalContext'), [Ptr(Cell(ec)), Ptr(Cell(props)), Ptr(Cell(props))])
        r = I.run(I.fn('eval_node'), [tree, Ptr(Cell(biomodel.GraphObj(M))), Ptr(Cell(ec)), Ptr(Cell(st & M.unit)), Ptr(Cell(FnItem('mc_utils::dont_track_progress')))])
        outs.append(r)
    return Agg('Result', 0, [RVec(outs)])

def _witness(lab, m, r, sp):
    M = lab.M; n = lab.n
    diff = m.eval(r ^ sp, model_completion=True).as_long()
    idx = (diff & -diff).bit_length() - 1
    col = M.colour_of(idx); s = M.state_of(idx)
    T = {}
    for i in range(n):
        tv = m.eval(M.T[i], model_completion=True).as_long()
        for st in range(1 << n): T[f'{i},{st}'] = bool((tv >> ((col << n) | st)) & 1)
    sets = {}
    for l, w in lab.small.items():
        wv = m.eval(w, model_completion=True).as_long()
        sets[l] = [st for st in range(1 << n) if (wv >> ((col << n) | st)) & 1]
    valid = True
    if lab.U is not None: valid = bool((m.eval(lab.U, model_completion=True).as_long() >> col) & 1)
    return {'T': T, 'sets': sets, 'state': s, 'colour_valid': valid, 'in_result': bool((m.eval(r, model_completion=True).as_long() >> idx) & 1)}

def _path_witness(lab, ctx):
    """a concrete model of the path condition with every colour valid: per colour the T table and the context sets"""
    M = lab.M; n = lab.n
    extra = [lab.U == z3.BitVecVal((1 << (1 << lab.c)) - 1, 1 << lab.c)] if lab.U is not None else []
    r, m = ctx._check(extra)
    if r != z3.sat: return None
    cols = []
    for col in range(1 << lab.c):
        T = {}
        for i in range(n):
            tv = m.eval(M.T[i], model_completion=True).as_long()
            for st in range(1 << n): T[f'{i},{st}'] = bool((tv >> ((col << n) | st)) & 1)
        sets = {}
        for l, w in lab.small.items():
            wv = m.eval(w, model_completion=True).as_long()
            sets[l] = [st for st in range(1 << n) if (wv >> ((col << n) | st)) & 1]
        cols.append({'T': T, 'sets': sets})
    return cols

def native_multi(task, cols, labels_present=None):
    n = task['n']
    colours = [{'T': {(int(k.split(',')[0]), int(k.split(',')[1])): v for k, v in cw['T'].items()}, 'sets': {l: set(v) for l, v in cw['sets'].items()}} for cw in cols]
    entry = {'multi_ext_dirty': 'ext_multi_dirty', 'multi_ext': 'ext_multi'}.get(task['entry'], task['entry'])
    texts = task.get('texts') or [S.show(f) for f in task['phis']]
    job = RP.multi_colour_job(n, colours, texts if 'multi' in entry else texts[:1], task['k'], entry)
    if task.get('drop_labels'): job['drop'] = list(task['drop_labels'])
    ans = front.native([job])[0]
    return ans, job

def run_tasks(chk, pid, tasks, procs=None, signature='semantics', expect_paths=None):
    """run tasks in a process pool and record obligations on chk.  Returns the raw results."""
    if not tasks: return []
    front.build_native()    # replay may need it; build once in the parent
    procs = procs or min(14, max(1, (os.cpu_count() or 2) - 2), len(tasks))
    t0 = time.time()
    if procs > 1:
        with mp.Pool(procs, maxtasksperchild=8) as pool: results = pool.map(_worker, tasks, chunksize=1)
    else: results = [_worker(t) for t in tasks]
    for res in results:
        task = res['task']
        phis = task['phis']
        base = f"{pid}/E-MIR {task['entry']} n={task['n']} k={task['k']} c={task.get('c', 0)}: " + ' ; '.join(task.get('texts') or [S.show(f) for f in phis])
        if len(base) > 300: base = base[:300] + '...'
        chk.note_functions(res.get('functions', [])); chk.models |= set(res.get('models', []))
        chk.queries += res.get('queries', 0); chk.paths += len(res['paths'])
        u = res.get('unwinding') or {}
        chk.unwinding['assertions'] += u.get('assertions', 0); chk.unwinding['unsat'] += u.get('unsat', 0)
        if res['error'] and 'solver: unknown' in res['error']:
            chk.obligation(base + ' [solver timeout]', 'E-MIR/fork', 'timeout', res['s']); continue
        if res['error']:
            chk.obligation(base + ' [' + res['error'][:120] + ']', 'E-MIR/fork', 'inconclusive', res['s']); print('  ' + base + '\n    ' + res['error'], flush=True); continue
        handler = task.get('handler', 'equiv')
        if handler == 'equiv': _record_equiv(chk, pid, base, task, res, signature)
    return results

def _record_equiv(chk, pid, base, task, res, signature):
    phis = task['phis']
    bad = False; worst = 0.0; twins = []
    for p in res['paths']:
        if p['outcome'] == 'panic':
            bad = True; _violation_panic(chk, pid, base, task, p); continue
        if p['kind'] == 'err':
            bad = True
            _confirm_error(chk, pid, base, task, p); continue
        for rr in p['results']:
            if rr.get('pair') and not rr['holds']:
                bad = True; _confirm_pair(chk, pid, base, task, rr, signature); continue
            worst += rr['s']
            if 'twin_sat' in rr: twins.append(rr['twin_sat'])
            if not rr['holds']:
                bad = True; _confirm_cex(chk, pid, base, task, rr, signature)
    for t in twins: chk.twin(t)
    if not bad:
        chk.obligation(base, 'E-MIR/fork', 'holds', res['s'], nontrivial=(all(twins) if twins else True),
                       detail={'entry': task['entry'], 'formulas': [S.show(f) for f in phis], 'n': task['n'], 'k': task['k'], 'colour_bits': task.get('c', 0),
                               'paths': len(res['paths']), 'kernel_calls_in_merge_mode': res.get('kernel_calls'), 'claim': 'result == explicit semantics on every path, for all transition systems and context sets', 'verdict': 'unsat on every path'})

def _concrete(task, w):
    n = task['n']
    T = {(int(k.split(',')[0]), int(k.split(',')[1])): v for k, v in w['T'].items()}
    sets = {l: set(v) for l, v in w['sets'].items()}
    return n, T, sets

def _confirm_cex(chk, pid, base, task, rr, signature):
    w = rr['witness']; phi = task['phis'][rr['i']]
    chk.native_replays += 1
    if not w['colour_valid']:
        # the difference lies at an invalid colour: the result leaves the unit set.  Replay on the constrained instance.
        from . import unicheck as UC
        try:
            sess = UC.Session(UC.instances(['C2'])[0], task['k'], [{'phis': [phi], 'entry': 'ext_dirty'}])
            r = sess.runs[0]
            if 'ok' in r and not UC.check_inside_unit(chk, pid, sess, phi, r['ok'], base + f' [result {rr["i"]} leaves the unit set]', 'outside-unit'): return
        except Exception as e: pass
        chk.obligation(base + ' (counterexample at an invalid colour does not reproduce on the constrained native instance)', 'E-MIR/fork', 'inconclusive'); return
    n, T, sets = _concrete(task, w)
    entry = {'multi_ext_dirty': 'ext_multi_dirty', 'multi_ext': 'ext_multi', 'ext': 'ext', 'ext_dirty': 'ext_dirty', 'unsafe_ex': 'unsafe_ex'}.get(task['entry'], 'ext_multi_dirty')
    res = native_batch(n, T, sets, task['phis'], task['k'], entry, task.get('texts'), self_loops=task.get('self_loops', True), ctx_formulas=task.get('ctx_formulas'))
    i = rr['i']
    if res['error'] or res['native'][i] != res['spec'][i]:
        chk.obligation(base, 'E-MIR/fork', 'violated')
        chk.violation(base, signature, {'task': {k: v for k, v in task.items() if k != 'phis'}, 'phis': task['phis'], 'formulas': [S.show(f) for f in task['phis']], 'position': i, 'witness': w, 'native': res},
                      f"position {i} ({S.show(phi)}): native result {res['native'][i] if not res['error'] else res['error']} but explicit semantics {res['spec'][i]} on the witness network")
    else:
        print(f'  non-reproducing E-MIR counterexample: {base}: {res}', flush=True)
        chk.obligation(base + ' (E-MIR counterexample does not reproduce natively: library model or encoding error)', 'E-MIR/fork', 'inconclusive')

def _confirm_pair(chk, pid, base, task, rr, signature):
    w = rr['witness']; chk.native_replays += 1
    if not w['colour_valid']:
        chk.obligation(base + ' (pair counterexample at an invalid colour)', 'E-MIR/fork', 'inconclusive'); return
    n, T, sets = _concrete(task, w)
    i, j = rr['i'], rr['j']
    if task['entry'] == 'eval_node_steady':
        # the two steady-state arguments the public API can produce: the real steady states and the empty set
        ra = native_batch(n, T, sets, [task['phis'][i]], task['k'], 'ext_dirty', None); rb = native_batch(n, T, sets, [task['phis'][j]], task['k'], 'unsafe_ex', None)
        res = {'error': ra['error'] or rb['error'], 'native': [None] * len(task['phis']), 'aeon': ra['aeon'], 'context': ra['context'], 'entries': ['model_check_extended_formula_dirty', 'model_check_formula_unsafe_ex']}
        if not res['error']: res['native'][i] = ra['native'][0]; res['native'][j] = rb['native'][0]
        if not res['error'] and i == j and ra['native'][0] == rb['native'][0]: pass
    else:
        res = native_batch(n, T, sets, task['phis'], task['k'], 'ext_multi_dirty', task.get('texts'))
    if res['error'] or res['native'][i] != res['native'][j]:
        chk.obligation(base, 'E-MIR/fork', 'violated')
        chk.violation(base, signature + '-pair', {'formulas': [S.show(f) for f in task['phis']], 'pair': [i, j], 'witness': w, 'native': res},
                      f"{S.show(task['phis'][i])} and {S.show(task['phis'][j])} should coincide but natively give {res['native'][i] if not res['error'] else res['error']} and {res['native'][j] if not res['error'] else ''}")
    else:
        chk.obligation(base + ' (pair counterexample does not reproduce natively)', 'E-MIR/fork', 'inconclusive')

def _ss(x):
    return sorted(x) + (['<depends on auxiliary variables: ' + x.depends + '>'] if x.depends else [])

def native_batch(n, T, sets, phis, k, entry, texts=None, self_loops=True, ctx_formulas=None):
    from . import uni
    names = [f'v{i}' for i in range(n)]
    multi = 'multi' in entry
    job = {'op': 'mc', 'aeon': RP.concrete_aeon(n, T, names), 'k': k, 'context': {l: {'t': 'expr', 'e': RP.dnf(names, st, n)} for l, st in sets.items()},
           'runs': [{'entry': entry, 'formulas': texts or [S.show(f) for f in phis]}] if multi else [{'entry': entry, 'formulas': [t]} for t in (texts or [S.show(f) for f in phis])]}
    if ctx_formulas:
        job['context_order'] = list(job['context']) + list(ctx_formulas)
        for l, psi in ctx_formulas.items(): job['context'][l] = {'t': 'mc', 'f': S.show(psi)}
    ans = front.native([job])[0]
    out = {'error': None, 'native': [], 'spec': [sorted(RP.concrete_spec(n, T, sets, f, names, self_loops)) for f in phis], 'aeon': job['aeon'], 'context': job['context']}
    if 'fatal' in ans or 'fatal_panic' in ans: out['error'] = str(ans); return out
    dec = uni.Decoded(ans)
    if multi:
        r = ans['runs'][0]
        if 'ok' not in r: out['error'] = str({k_: r[k_] for k_ in r if k_ in ('err', 'panic')}); out['native'] = [None] * len(phis); return out
        out['native'] = [_ss(RP.states_of(dec, b)) for b in r['ok']]
    else:
        for r in ans['runs']:
            if 'ok' not in r: out['error'] = str({k_: r[k_] for k_ in r if k_ in ('err', 'panic')}); out['native'].append(None)
            else: out['native'].append(_ss(RP.states_of(dec, r['ok'])))
    return out

def _violation_panic(chk, pid, base, task, p):
    """a path of the MIR execution ends in a panic: replay a concrete witness of the path natively"""
    w = p.get('witness')
    if w is None:
        chk.obligation(base + ' [panic path without a witness whose colours are all valid: ' + p.get('msg', '')[:80] + ']', 'E-MIR/fork', 'inconclusive'); return
    chk.native_replays += 1
    ans, job = native_multi(task, w)
    r = (ans.get('runs') or [{}])[0]
    if 'panic' in r or 'fatal_panic' in ans:
        chk.obligation(base, 'E-MIR/fork', 'violated')
        chk.violation(base, 'panic', {'job': job, 'answer': {k: r.get(k) for k in ('panic', 'err')}, 'mir_panic': p.get('msg')},
                      f"the entry point panics natively: {r.get('panic') or ans.get('fatal_panic')}")
    else:
        print(f'  non-reproducing panic path: {base}: MIR says {p.get("msg")}, native answered {str(r)[:200]}', flush=True)
        chk.obligation(base + ' (panic path does not reproduce natively: library model or encoding error)', 'E-MIR/fork', 'inconclusive')

def _confirm_error(chk, pid, base, task, p):
    """a valid input answered with Err on some path"""
    w = p.get('witness')
    if w is None: chk.obligation(base + ' [error path: ' + p.get('msg', '')[:80] + ']', 'E-MIR/fork', 'inconclusive'); return
    chk.native_replays += 1
    ans, job = native_multi(task, w)
    r = (ans.get('runs') or [{}])[0]
    if 'err' in r:
        chk.obligation(base, 'E-MIR/fork', 'violated')
        chk.violation(base, 'error-on-valid-input', {'job': job, 'answer': r.get('err')}, f"valid input answered with an error natively: {r.get('err')}")
    else:
        chk.obligation(base + ' (error path does not reproduce natively)', 'E-MIR/fork', 'inconclusive')
