"""Native fallback for the text-level properties (C05, C06, C07, C14).

Used ONLY when a part of the E-MIR exploration of the working tree came back `unexplored` (a construct, library function
or signature the symbolic executor has no rule for).  Then the compiled working tree is run natively on a bounded,
systematically enumerated set of concrete inputs and compared with the same independent oracles.  This is enumeration,
not a solver verdict; it is labelled as such in the evidence (engine `native-fallback`) and exists so that an
unexplored part neither hides a violation nor turns a harmless refactoring into an alarm.  DESIGN.md 3.7."""
import itertools
from . import textlab as TL, front
from .oracle import ref as R
from .mirsym.interp import PathCtx, show

SIG = list('aEXAUWFG~&|(){}%!@: 3V_1=><^\\\tx') + ['é']      # the characters the tokenizer / parser branch on + representatives
SIG3 = list('aEXAU~&(){}%!: 3V_1=>')                                # length-3 strings: a smaller alphabet

def text_corpus(thorough=False):
    out = []
    for L in (1, 2):
        for tup in itertools.product(SIG, repeat=L): out.append(''.join(tup))
    for tup in itertools.product(SIG3, repeat=3): out.append(''.join(tup))
    # token sequences (every sequence of <= 3 token classes, the binary chains) rendered as text
    I = TL.interp()
    def txt(seq):
        toks = [TL._mk_token(I, c, i, None)[1] for i, c in enumerate(seq)]
        return ' '.join(TL.token_text(t) for t in toks)
    for L in (1, 2, 3):
        for seq in itertools.product(TL.TOKEN_CLASSES, repeat=L): out.append(txt(seq))
    B9 = ['and', 'or', 'xor', 'imp', 'iff', 'EU', 'AU', 'EW', 'AW']
    for a in B9:
        for b in B9:
            for mid in ('prop', 'group1'): out.append(txt(['prop', a, mid, b, 'prop']))
    out += list(TL.c05_templates()) + list(TL.C14_TEMPLATES) + list(getattr(TL, 'C14_EXT', []))
    # templates with one character replaced / deleted / a significant character inserted at every position
    for t in list(TL.c05_templates())[:: 1 if thorough else 2]:
        for pos in range(len(t)):
            out.append(t[:pos] + t[pos + 1:])
            for ch in ' (){}%:~3V_\t\n' if thorough else ' ({%:\t':
                out.append(t[:pos] + ch + t[pos + 1:]); out.append(t[:pos] + ch + t[pos:])
    seen = set(); r = []
    for s in out:
        if s and s not in seen: seen.add(s); r.append(s)
    return r

def native_vs_reference_many(texts, chunk=4000):
    """batched version of c05.native_vs_reference: {text: [differences]} for the texts that differ"""
    bad = {}
    for i in range(0, len(texts), chunk):
        part = texts[i:i + chunk]
        jobs = [{'op': 'text', 'what': w, 'text': t} for t in part for w in ('tokenize', 'tokenize_ext', 'parse', 'parse_ext')]
        ans = front.native(jobs, timeout=1200)
        for j, text in enumerate(part):
            nt, nte, npl, npe = ans[4 * j:4 * j + 4]
            diffs = []
            for ext, ntok, npar in ((False, nt, npl), (True, nte, npe)):
                ref = TL.ref_concrete(text, ext); mode = 'extended' if ext else 'plain'
                if 'panic' in ntok or 'panic' in npar: diffs.append(f'{mode}: native panic {ntok.get("panic") or npar.get("panic")}'); continue
                if ('ok' in ntok) != (ref[0] != 'tok-reject'): diffs.append(f'{mode} tokenizer: native {"accepts" if "ok" in ntok else "rejects (" + str(ntok.get("err")) + ")"}, grammar {"rejects" if ref[0] == "tok-reject" else "accepts"}'); continue
                if 'ok' in ntok:
                    it = [TL.tok_from_json(t) for t in ntok['ok']]
                    if it != ref[1]: diffs.append(f'{mode} tokenizer: native tokens differ from the reference tokens')
                if ('ok' in npar) != (ref[0] == 'ok'): diffs.append(f'{mode} parser: native {"accepts as " + npar["ok"]["s"] if "ok" in npar else "rejects (" + str(npar.get("err")) + ")"}, grammar {"accepts" if ref[0] == "ok" else "rejects"}'); continue
                if 'ok' in npar:
                    t = TL.tree_from_json(npar['ok'])
                    if t != ref[2]: diffs.append(f'{mode} parser: native tree {npar["ok"]["s"]} != unique tree of the grammar {show(R.render(ref[2]))}')
                    elif R.count_nodes(t) != R.count_tokens(ref[1]): diffs.append(f'{mode} parser: node count != token count')
            if diffs: bad[text] = diffs
    return bad

def grammar(chk, pid, signature='grammar-fallback'):
    """C05 / C14: native tokenizer + parser == reference grammar on the enumerated corpus (no panic, nothing dropped)"""
    texts = text_corpus(chk.tier == 'thorough')
    bad = native_vs_reference_many(texts)
    name = f'{pid}/native-fallback: tokenizer + parser (plain, extended) == reference grammar on {len(texts)} enumerated strings (all strings of <= 2 / 3 significant characters, all sequences of <= 3 token classes, binary chains, edited templates)'
    if not bad:
        chk.obligation(name, 'native-fallback', 'holds', 0.0, True, {'strings': len(texts), 'why': 'parts of the symbolic exploration were unexplored on this tree', 'kind': 'enumeration, not a solver verdict'}); return
    chk.obligation(name, 'native-fallback', 'violated')
    for text, diffs in list(bad.items())[:6]:
        chk.native_replays += 1
        chk.violation(f'{pid}/native-fallback {text!r}', signature, {'text': text, 'differences': diffs}, f'{text!r}: ' + '; '.join(diffs)[:400])

def preprocessing(chk, pid, replay, signature='rename-fallback'):
    """C07 (and the preprocessing part of C06): native validate_props_and_rename_vars on every skeleton with every
    assignment of names from a small pool (incl. names equal to internal ones) vs the scope-checking / depth-naming oracle"""
    pool = ['x', 'xx', 'y', 'xxx']
    n = 0; bad = []
    for si, sk in enumerate(TL.skeletons()):
        slots = TL.nslots(sk)
        assigns = itertools.product(pool[:3], repeat=slots) if slots <= 5 else [tuple(pool[(i * 7 + j * 3 + i * j) % 4] for j in range(slots)) for i in range(120)]
        for asg in assigns:
            for pname in ('v0', 'zz', 'v0_extra_0'):
                if pname != 'v0' and 'P' not in str(sk): continue
                ns = {i: tuple(map(ord, a)) for i, a in enumerate(asg)}; ns['P'] = tuple(map(ord, pname)); ns['Q'] = tuple(map(ord, 'v1'))
                phi = TL.fill(sk, ns); n += 1
                tj = TL.tree_to_json(phi)
                bad_here = replay(tj)
                if bad_here: bad.append((tj, bad_here))
                if len(bad) >= 6: break
            if len(bad) >= 6: break
        if len(bad) >= 6: break
    name = f'{pid}/native-fallback: validate_props_and_rename_vars == scope checker + depth naming on {n} concrete trees (every skeleton x names from {pool[:3]} x valid / unknown / auxiliary-like proposition)'
    if not bad:
        chk.obligation(name, 'native-fallback', 'holds', 0.0, True, {'trees': n, 'kind': 'enumeration, not a solver verdict'}); return
    chk.obligation(name, 'native-fallback', 'violated')
    for tj, diffs in bad:
        chk.native_replays += 1
        chk.violation(f'{pid}/native-fallback tree {tj.get("s")!r}', signature, {'tree': tj, 'differences': diffs}, '; '.join(diffs)[:400])

def roundtrip(chk, pid, replay, signature='roundtrip-fallback'):
    """C06: constructors + Display + parser round trip natively on every root operator x child template, and with names
    from a small pool in every name slot"""
    o = lambda s_: tuple(map(ord, s_))
    kids = TL.child_templates(None)
    trees = []
    for a in kids:
        for op in list(TL.UNOPS): trees.append((op, a))
        for q in ('bind', 'exists', 'forall'):
            for d in (None, o('d')): trees.append((q, o('x'), d, a))
        trees.append(('jump', o('x'), a))
        for b in kids:
            for op in list(TL.BINOPS): trees.append((op, a, b))
    for nm in ('a', 'EXa', 'AG_1', 'x3', 'V1', 'true1', 'p_q', 'Ab', 'TRUE', 'FALSE', 'tRuE', 'fALSE', 'TRue', 'falsE', 'v', 'ex', 'Ax'):
        for sh in TL.NAME_SHAPES: trees.append(sh(o(nm)))
    bad = []
    for t in trees:
        tj = TL.tree_to_json(t)
        d = replay(tj)
        if d: bad.append((tj, d))
        if len(bad) >= 6: break
    name = f'{pid}/native-fallback: constructors + Display + parser round trip on {len(trees)} concrete trees (root operator x child templates, names in every slot)'
    if not bad:
        chk.obligation(name, 'native-fallback', 'holds', 0.0, True, {'trees': len(trees), 'kind': 'enumeration, not a solver verdict'}); return
    chk.obligation(name, 'native-fallback', 'violated')
    for tj, diffs in bad:
        chk.native_replays += 1
        chk.violation(f'{pid}/native-fallback tree {tj.get("s")!r}', signature, {'tree': tj, 'differences': diffs}, '; '.join(diffs)[:400])

class _EnumCtx:
    """replays a fixed vector of choices and records the arity of every choice point (concrete enumeration of a scenario's choices)"""
    def __init__(self, prefix): self.prefix, self.i, self.arity = list(prefix), 0, []
    def choose(self, n, tag=''):
        v = self.prefix[self.i] if self.i < len(self.prefix) else 0
        self.arity.append(n); self.i += 1
        return v

def _enumerate_choices(build, limit=64):
    """all results of build(ctx) over every vector of ctx.choose answers (depth first, at most `limit`)"""
    out = []; work = [[]]
    while work and len(out) < limit:
        pre = work.pop()
        ctx = _EnumCtx(pre); r = build(ctx); out.append(r)
        for pos in range(len(pre), len(ctx.arity)):
            for v in range(1, ctx.arity[pos]): work.append((pre + [0] * (pos - len(pre)))[:pos] + [v])
    return out

def canonisation(chk, pid, native_canon, native_dups):
    """C09: canonical forms and duplicate marking natively on every concrete member of the canonisation family (every way to
    bind the variable occurrences, concrete labels), compared with the alpha-equivalence / duplicate oracles"""
    from .oracle import gen as G
    o = lambda s_: tuple(map(ord, s_))
    labels = {'L0': o('d'), 'L1': o('e'), 'L2': o('f')}
    trees = []
    for sk in TL.pre_family():
        for t in _enumerate_choices(lambda ctx: TL.bind_family(ctx, sk, labels, o('v1')), limit=24):
            if t not in trees: trees.append(t)
    def subs(t):
        out = [t]
        for c in t[1:]:
            if isinstance(c, tuple) and c and isinstance(c[0], str): out += subs(c)
        return out
    bad = []; n = 0
    for t in trees:
        ss = [s for s in subs(t) if s[0] not in ('true', 'false', 'prop', 'var', 'wild')]
        for s in ss:
            n += 1; d = native_canon([TL.tree_to_json(s)])
            if d: bad.append((TL.tree_to_json(s), d))
        for a, b in zip(ss, ss[1:]):
            n += 1; d = native_canon([TL.tree_to_json(a), TL.tree_to_json(b)])
            if d: bad.append((TL.tree_to_json(a), d))
        d = native_dups([TL.tree_to_json(t)])
        if d: bad.append((TL.tree_to_json(t), d))
        if len(bad) >= 6: break
    name = f'{pid}/native-fallback: canonical forms (alpha-variant, injective renaming, idempotent, equal iff alpha-equivalent for neighbouring sub-formulas) and duplicate marking on {len(trees)} concrete trees / {n} sub-formula queries'
    if not bad:
        chk.obligation(name, 'native-fallback', 'holds', 0.0, True, {'trees': len(trees), 'queries': n, 'kind': 'enumeration, not a solver verdict'}); return
    chk.obligation(name, 'native-fallback', 'violated')
    for tj, diffs in bad[:6]:
        chk.native_replays += 1
        chk.violation(f'{pid}/native-fallback {tj.get("s")!r}', 'canon', {'tree': tj, 'differences': diffs}, '; '.join(diffs)[:500])
