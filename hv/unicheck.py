"""E-UNI obligations shared by the properties: run the real pipeline on universal / constrained instances, export the
BDDs, decide equivalence with the explicit semantics by z3, replay counterexamples on instantiated networks."""
import time, z3
from . import front, uni, replay as RP
from .oracle import sem as S, gen as G

class Instance:
    def __init__(self, name, n, regs=None, wild=('w', 'dd', 'ee', 'pp'), zero=('g',), explicit=None, implicit=(), ctx=None):
        self.name, self.n = name, n
        self.aeon = uni.universal_aeon(n, wild=wild, zero=zero, regs=regs, explicit=explicit, implicit=implicit)
        self.props = [f'v{i}' for i in range(n)]
        P = lambda nm: {'t': 'param', 'name': nm}
        self.ctx = ctx or {
            'w': P('w'), 'p': P('pp'),
            'd': {'t': 'and', 'a': [P('dd'), P('g')]},                       # empty for the colours where g is false
            'e': {'t': 'and', 'a': [P('ee'), {'t': 'not', 'a': P('g')}]},    # non-empty only where d is empty
            'f': P('ee'),
            's1': {'t': 'and', 'a': [{'t': 'expr', 'e': ' & '.join(f'v{i}' for i in range(n))}, P('g')]},     # one single state, for the colours where g holds
            's0': {'t': 'and', 'a': [{'t': 'expr', 'e': ' & '.join(f'!v{i}' for i in range(n))}, {'t': 'not', 'a': P('g')}]},
            'empty': {'t': 'empty'}, 'full': {'t': 'unit'},
        }

def instances(which):
    out = []
    for w in which:
        if w == 'U2': out.append(Instance('U2', 2))
        elif w == 'C2': out.append(Instance('C2', 2, regs={(0, 1): '->', (1, 0): '-|', (0, 0): '-?', (1, 1): '-??'}))
        elif w == 'M2': out.append(Instance('M2', 2, regs={(0, 0): '-?', (1, 0): '->'}, implicit=(0,), explicit={1: '(v0 & q) | f1(v1, v0)'}, zero=('g', 'q')))
        elif w == 'I3':
            # v0 is an input (no regulator, no function), v1 uninterpreted over (v0, v2), v2 explicit; activation / inhibition constraints
            out.append(Instance('I3', 3, regs={(0, 0): None, (1, 0): None, (2, 0): None, (0, 1): '->', (1, 1): '-??', (2, 1): '-?', (0, 2): '->', (1, 2): '-|', (2, 2): None},
                                implicit=(0,), explicit={1: 'f1(v0, v2)', 2: 'v0 & !v1'}, wild=('w',), zero=('g',),
                                ctx={'w': {'t': 'param', 'name': 'w'}, 'd': {'t': 'and', 'a': [{'t': 'param', 'name': 'w'}, {'t': 'param', 'name': 'g'}]}, 'empty': {'t': 'empty'}, 'full': {'t': 'unit'}}))
        elif w == 'F2':
            # fully specified transition structure (the colours only come from the wild-card parameters)
            out.append(Instance('F2', 2, regs={(0, 0): '-??', (1, 0): '-??', (0, 1): '-??', (1, 1): '-??'}, explicit={0: 'v1 | !v0', 1: '!v0'}))
        elif w == 'W2':
            # one-way switches: v0 can never fall and v1 can never rise, in any colour (emptiness tests over all colours see "no such transition")
            out.append(Instance('W2', 2, regs={(0, 0): '-??', (1, 0): '-??', (0, 1): '-??', (1, 1): '-??'}, explicit={0: 'v0 | f0(v1)', 1: 'v1 & f1(v0)'}))
        elif w == 'U3': out.append(Instance('U3', 3, wild=('w',), zero=()))
        elif w == 'S3': out.append(Instance('S3', 3, regs={(0, 0): '-??', (1, 1): None, (2, 2): None}, explicit={0: 'f0(v1, v2)', 1: 'f1(v0, v2)', 2: 'f2(v0, v1)'}, wild=('w',), zero=('g',),
                                            ctx={'w': {'t': 'param', 'name': 'w'}, 'd': {'t': 'and', 'a': [{'t': 'param', 'name': 'w'}, {'t': 'param', 'name': 'g'}]}, 'empty': {'t': 'empty'}, 'full': {'t': 'unit'}}))
    return out

def fix_aeon_for_implicit(inst): return inst

def eval_bdd(bdd_str, assignment):
    """walk the BDD with a concrete assignment (list of bools indexed by BDD variable)"""
    nodes = [tuple(map(int, t.split(','))) for t in bdd_str.strip().strip('|').split('|')]
    if len(nodes) <= 1: return False
    i = len(nodes) - 1
    while i > 1:
        v, lo, hi = nodes[i]
        i = hi if assignment[v] else lo
    return i == 1

SANITIZED = {'formula', 'tree', 'multi', 'trees', 'ext', 'ext_multi'}

class Session:
    """one native evaluation of a batch of runs on one instance"""
    def __init__(self, inst, k, runs, plain=False, drop=(), extra_ctx=None):
        plain = plain or any(r.get('entry', 'ext_dirty') in SANITIZED for r in runs)
        ctx = dict(inst.ctx)
        if extra_ctx: ctx.update(extra_ctx)
        used = set()
        for r in runs:
            for f in r.get('phis', []):
                a, b = S.labels(f); used |= a | b
        ctx = {l: s for l, s in ctx.items() if l in used or (extra_ctx and l in extra_ctx)}
        job = {'op': 'mc', 'aeon': inst.aeon, 'k': k, 'context': ctx, 'plain': plain, 'drop': list(drop),
               'runs': [{'entry': r.get('entry', 'ext_dirty'), 'formulas': r.get('formulas') or [S.show(f) for f in r['phis']], 'observer': r.get('observer', False)} for r in runs]}
        if extra_ctx: job['context_order'] = [l for l in ctx if l not in extra_ctx] + [l for l in extra_ctx if l in ctx]
        t = time.time()
        self.ans = front.native([job])[0]
        self.native_s = time.time() - t
        self.job = job; self.inst = inst; self.k = k
        if 'fatal' in self.ans or 'fatal_panic' in self.ans: raise RuntimeError(f'hv-native failed on instance {inst.name}: {self.ans}')
        self.dec = uni.Decoded(self.ans)
        self.ctx_terms = {l: self.dec.bdd(b) for l, b in self.ans['context'].items()}
        self.K = self.dec.kripke(self.ctx_terms)
        self.K_noloop = None
        self.runs = self.ans['runs']
        self.entries = [r.get('entry', 'ext_dirty') for r in runs]
        self.dec_plain = uni.Decoded(self.ans['plain']) if plain else None
        self._sem = {}
    def dec_for(self, i):
        return self.dec_plain if self.entries[i] in SANITIZED else self.dec
    def first(self, i):
        """BDD string of the (first) result of run i, or None"""
        r = self.runs[i]
        if 'ok' not in r: return None
        return r['ok'][0] if isinstance(r['ok'], list) else r['ok']
    def sem(self, phi, self_loops=True):
        key = (phi, self_loops)
        if key not in self._sem:
            if not self_loops and self.K_noloop is None: self.K_noloop = self.dec.kripke(self.ctx_terms, self_loops=False)
            self._sem[key] = self.dec.sem_term(S.sem(self.K if self_loops else self.K_noloop, phi))
        return self._sem[key]

def witness(sess, model):
    dec = sess.dec
    assign = [bool(z3.is_true(model.eval(x, model_completion=True))) for x in dec.X]
    colour = {dec.names[i]: assign[i] for i in dec.params}
    state = sum(1 << i for i in range(dec.n) if assign[dec.state[i]])
    return assign, colour, state

def concrete_of_colour(sess, colour):
    """(T table, concrete context sets) of one colour of the instance"""
    dec = sess.dec; n = dec.n
    sub = [(dec.X[i], z3.BoolVal(colour[dec.names[i]])) for i in dec.params]
    T = {}
    for i in range(n):
        fi = z3.substitute(dec.fn_update[i], *sub)
        for s in range(1 << n):
            v = z3.simplify(dec.at_state(fi, s)); T[(i, s)] = z3.is_true(v) != bool((s >> i) & 1)
    sets = {}
    for l, t in sess.ctx_terms.items():
        tt = z3.substitute(t, *sub)
        sets[l] = {s for s in range(1 << n) if z3.is_true(z3.simplify(dec.at_state(tt, s)))}
    unit_ok = z3.is_true(z3.simplify(z3.substitute(dec.unit, *sub)))
    return T, sets, unit_ok

def confirm(chk, pid, sess, phi, bdd_str, model, name, signature, self_loops=True, expect=None, rdec=None):
    """replay of an E-UNI counterexample.  Returns True if it reproduced (violation recorded)."""
    assign, colour, state = witness(sess, model)
    rdec = rdec or sess.dec
    got = eval_bdd(bdd_str, [bool(z3.is_true(model.eval(x, model_completion=True))) for x in rdec.X])
    T, sets, unit_ok = concrete_of_colour(sess, colour)
    chk.native_replays += 1
    spec = RP.concrete_spec(sess.dec.n, T, sets, phi, self_loops=self_loops)
    want = (state in spec) and unit_ok
    if got == want:
        chk.obligation(name + ' (counterexample does not reproduce: export/encoding error)', 'E-UNI', 'inconclusive'); return False
    nat, _, job = RP.run_concrete(sess.dec.n, T, sets, phi)
    chk.obligation(name, 'E-UNI', 'violated')
    chk.violation(name, signature,
                  {'instance': sess.inst.name, 'aeon': sess.inst.aeon, 'k': sess.k, 'formula': S.show(phi), 'phi': phi, 'n': sess.dec.n, 'colour': {k: v for k, v in colour.items()}, 'state': state,
                   'valid_colour': unit_ok, 'universal_answer': got, 'explicit_semantics': want,
                   'instantiated_network': job['aeon'], 'instantiated_sets': {l: sorted(x) for l, x in sets.items()},
                   'instantiated_native_states': sorted(nat) if isinstance(nat, set) else list(nat), 'explicit_states': sorted(spec)},
                  f"{S.show(phi)} on instance {sess.inst.name}: for the witness colour, state {state} is {'in' if got else 'not in'} the result, "
                  f"explicit semantics says {'in' if want else 'not in'} (native run on the instantiated network: {sorted(nat) if isinstance(nat, set) else nat}, semantics: {sorted(spec)})")
    return True

def check_equiv(chk, pid, sess, phi, bdd_str, name, signature='semantics', timeout_ms=120000, self_loops=True, nontrivial=True, rdec=None):
    dec = sess.dec
    R = (rdec or dec).bdd(bdd_str)
    t = time.time(); o = sess.sem(phi, self_loops); enc = time.time() - t
    v = uni.decide([dec.unit, R != o], timeout_ms); chk.queries += 1
    if v.status == 'unsat':
        chk.obligation(name, 'E-UNI', 'holds', v.seconds + enc, nontrivial,
                       {'formula': S.show(phi), 'instance': sess.inst.name, 'k': sess.k, 'bdd_nodes': dec.bdd_size(bdd_str), 'query': 'exists colour,state,aux: unit & (result != semantics)', 'verdict': 'unsat'})
        return True
    if v.status == 'sat': confirm(chk, pid, sess, phi, bdd_str, v.model, name, signature, self_loops, rdec=rdec)
    else: chk.obligation(name, 'E-UNI', 'timeout', v.seconds)
    return False

def check_inside_unit(chk, pid, sess, phi, bdd_str, name, signature='outside-unit', rdec=None):
    dec = sess.dec
    R = (rdec or dec).bdd(bdd_str)
    v = uni.decide([z3.Not(dec.unit), R], 60000); chk.queries += 1
    if v.status == 'unsat':
        chk.obligation(name, 'E-UNI', 'holds', v.seconds, True, {'formula': S.show(phi), 'instance': sess.inst.name, 'query': 'exists colour,state,aux: result & not unit', 'verdict': 'unsat'})
        return True
    if v.status == 'sat':
        assign, colour, state = witness(sess, v.model)
        got = eval_bdd(bdd_str, [bool(z3.is_true(v.model.eval(x, model_completion=True))) for x in (rdec or dec).X]); unit = eval_bdd(sess.ans['unit'], assign)
        chk.native_replays += 1
        if got and not unit:
            chk.obligation(name, 'E-UNI', 'violated')
            chk.violation(name, signature, {'instance': sess.inst.name, 'aeon': sess.inst.aeon, 'formula': S.show(phi), 'colour': colour, 'state': state},
                          f'{S.show(phi)} on instance {sess.inst.name}: the result contains state {state} for a colour outside the unit set (regulation constraints violated)')
        else: chk.obligation(name + ' (does not reproduce)', 'E-UNI', 'inconclusive')
    else: chk.obligation(name, 'E-UNI', 'timeout', v.seconds)
    return False

def run_plain_family(chk, pid, which, phis, k_extra=0, entries=('ext_dirty',), signature='semantics', check_unit=False, group=12):
    """evaluate formulas one by one (each its own run) on the instances and check equivalence with the semantics"""
    for inst in instances(which):
        # only formulas whose wild-card / domain labels this instance provides context sets for
        phis_i = [f for f in phis if not (S.labels(f)[0] | S.labels(f)[1]) - set(inst.ctx)]
        for i in range(0, len(phis_i), group):
            chunk = phis_i[i:i + group]
            k = max([S.quant_depth(f) for f in chunk] + [0]) + k_extra
            runs = [{'phis': [f], 'entry': entries[j % len(entries)]} for j, f in enumerate(chunk)]
            sess = Session(inst, k, runs)
            for i, (f, r, spec) in enumerate(zip(chunk, sess.runs, runs)):
                name = f'{pid}/E-UNI {inst.name} k={k} {spec["entry"]}: {S.show(f)}'
                b = sess.first(i)
                if b is None:
                    chk.obligation(name, 'E-UNI', 'violated')
                    chk.violation(name, 'error-on-valid-input', {'instance': inst.name, 'aeon': inst.aeon, 'formula': S.show(f), 'answer': r}, f'valid formula {S.show(f)} answered {r}')
                    continue
                check_equiv(chk, pid, sess, f, b, name, signature, rdec=sess.dec_for(i))
                if check_unit: check_inside_unit(chk, pid, sess, f, b, name + ' [inside unit]', rdec=sess.dec_for(i))

# ------------------------------------------------------------------ families
def family_c13(chk):
    thorough = chk.tier == 'thorough'
    P = [('prop', 'v0'), ('prop', 'v1')]
    W = ('wild', 'w'); X = ('var', 'x')
    core = []
    for op in ('EW', 'AW'):
        core += [(op, P[0], P[1]), (op, W, P[0]), (op, ('not', P[1]), W), (op, ('EX', P[0]), ('AG', P[1])),
                 ('bind', 'x', None, (op, ('not', X), P[0])), ('exists', 'x', None, (op, ('EF', X), W)),
                 ('not', (op, ('true',), P[0])), (op, P[0], ('false',)), (op, (op, P[0], P[1]), W),
                 ('forall', 'x', 'd', (op, ('or', X, P[0]), ('AX', X)))]
    core += [('and', ('EW', P[0], P[1]), ('not', ('AW', P[0], P[1]))), ('or', ('AW', W, P[0]), ('and', ('EW', W, P[0]), ('EU', W, P[0]))), ('bind', 'x', None, ('and', ('EW', X, P[0]), ('not', ('AW', X, P[0])))),
             ('iff', ('EW', P[0], P[1]), ('or', ('EU', P[0], P[1]), ('EG', P[0]))),
             ('iff', ('AW', W, P[1]), ('not', ('EU', ('not', P[1]), ('and', ('not', W), ('not', P[1])))))]
    U4 = ('EU', 'AU', 'EW', 'AW')
    for o1 in U4:
        for o2 in U4:
            if o1 < o2 and {o1, o2} & {'EW', 'AW'}:
                for l, r in ((P[0], P[1]), (W, P[0])):
                    core += [('or', (o1, l, r), (o2, l, r)), ('and', (o2, l, r), ('not', (o1, l, r))), ('EX', ('xor', (o1, l, r), (o2, l, r)))]
    rnd = []
    nr = 40 if thorough else 10
    while len(rnd) < nr:
        f = G.random_formula(chk.rng, 3, ['v0', 'v1'], wild=('w',), doms=('d',), ops_bin=['EW', 'AW', 'and', 'or', 'EU'], ops_un=['not', 'EX', 'AG', 'EF'])
        if S.ops_used(f) & {'EW', 'AW'}: rnd.append(f)
    fam = [(['U2', 'C2'] + (['M2'] if thorough else []), core + rnd)]
    if thorough:
        P3 = [('prop', 'v0'), ('prop', 'v2')]
        fam.append((['U3'], [('EW', P3[0], P3[1]), ('AW', P3[0], P3[1]), ('EW', ('wild', 'w'), P3[0]), ('AW', ('not', P3[1]), ('wild', 'w'))]))
    return fam

def run_family(chk, pid, fam, **kw):
    chk.bounds['E-UNI'] = 'universal / constrained instances with 2 (3 for shallow formulas) network variables: every colour = every Boolean network over them; formulas listed in evidence samples; k = quantifier depth (+ extra where stated)'
    chk.assumptions.append('E-UNI: the biodivine libraries are used as they are (real BDD operations); the symbolic update functions reported by SymbolicAsyncGraph::get_symbolic_fn_update define the transition system of a colour')
    for which, phis in fam:
        run_plain_family(chk, pid, which, phis, **kw)


def sweep(chk, pid, formulas, which=('U2',), label='bounded-exhaustive small formulas', entry='ext_dirty', check_unit=False, group=40, signature='sweep'):
    """E-UNI on many small formulas: one obligation per group of formulas (all must equal their semantics)"""
    for inst in instances(list(which)):
        fs = [f for f in formulas if not (S.labels(f)[0] | S.labels(f)[1]) - set(inst.ctx)]
        for i in range(0, len(fs), group):
            chunk = fs[i:i + group]
            sess = Session(inst, 3, [{'phis': [f], 'entry': entry} for f in chunk])
            bad = 0; t0 = time.time(); worst = None
            for j, f in enumerate(chunk):
                b = sess.first(j)
                name = f'{pid}/E-UNI sweep {inst.name}: {S.show(f)}'
                if b is None:
                    bad += 1; chk.obligation(name, 'E-UNI', 'violated'); chk.violation(name, 'error-on-valid-input', {'instance': inst.name, 'aeon': inst.aeon, 'formula': S.show(f), 'answer': sess.runs[j]}, f'valid formula {S.show(f)} answered {sess.runs[j]}'); continue
                dec = sess.dec; R = sess.dec_for(j).bdd(b)
                v = uni.decide([dec.unit, R != sess.sem(f)], 60000); chk.queries += 1
                if v.status == 'sat': bad += 1; confirm(chk, pid, sess, f, b, v.model, name, signature, rdec=sess.dec_for(j))
                elif v.status != 'unsat': chk.obligation(name, 'E-UNI', 'timeout', v.seconds)
                if check_unit:
                    v2 = uni.decide([z3.Not(dec.unit), R], 60000); chk.queries += 1
                    if v2.status == 'sat': bad += 1; check_inside_unit(chk, pid, sess, f, b, name + ' [inside unit]', rdec=sess.dec_for(j))
            if not bad:
                chk.obligation(f'{pid}/E-UNI {label} on {inst.name}: formulas {i}..{i + len(chunk) - 1} ({S.show(chunk[0])} .. {S.show(chunk[-1])}) == semantics' + (' and inside the unit set' if check_unit else ''), 'E-UNI', 'holds', time.time() - t0, True,
                               {'formulas': len(chunk), 'first': S.show(chunk[0]), 'last': S.show(chunk[-1]), 'instance': inst.name})
