"""Conformance of the bit-vector library model (hv.mirsym.biomodel) with the real biodivine libraries (DESIGN.md 3.4):
on seed-chosen concrete networks and concrete sets the model operations are evaluated and compared with the results of
the same operations of the real library, obtained through hv-native.  A disagreement is an infrastructure error."""
import z3
from . import front, uni, replay as RP
from .mirsym import biomodel
from .run import Inconclusive


def run(chk, n=2, k=1, samples=3):
    rng = chk.rng
    names = [f'v{i}' for i in range(n)]
    bad = []; done = 0
    for _ in range(samples):
        T = {(i, s): rng.random() < 0.5 for i in range(n) for s in range(1 << n)}
        M = biomodel.Model(n, k, 0, T=[z3.BitVecVal(sum(1 << s for s in range(1 << n) if T[(i, s)]), 1 << n) for i in range(n)])
        # a random set over (state, copies): DNF over all BDD variables
        bits = [(f'v{i}' if j == 0 else f'v{i}_extra_{j - 1}', M.pos(i, j)) for i in range(n) for j in range(1 + k)]
        members = [idx for idx in range(M.W) if rng.random() < 0.4]
        expr = ' | '.join('(' + ' & '.join((nm if (idx >> b) & 1 else '!' + nm) for nm, b in bits) + ')' for idx in members) or 'false'
        X = z3.BitVecVal(sum(1 << idx for idx in members), M.W)
        st = {s for s in range(1 << n) if rng.random() < 0.5}
        ops = [{'op': 'id', 'a': {'t': 'rawexpr', 'e': expr}}, {'op': 'pre', 'a': {'t': 'rawexpr', 'e': expr}}, {'op': 'post', 'a': {'t': 'rawexpr', 'e': expr}}, {'op': 'steady'}]
        want = [X, M.pre(X), M.post(X), M.steady()]
        for i in range(n):
            ops += [{'op': 'var_pre', 'var': i, 'a': {'t': 'rawexpr', 'e': expr}}, {'op': 'var_post', 'var': i, 'a': {'t': 'rawexpr', 'e': expr}}, {'op': 'state_var_true', 'var': i}]
            want += [M.var_pre(i, X), M.var_post(i, X), M.var_tt(M.pos(i, 0))]
        ans = front.native([{'op': 'lib', 'aeon': RP.concrete_aeon(n, T, names), 'k': k, 'ops': ops}])[0]
        if 'fatal' in ans or 'fatal_panic' in ans: raise Inconclusive('conformance: hv-native failed: ' + str(ans)[:200])
        vars_ = ans['vars']
        sol = z3.Solver(); sol.add(*M.defs); assert sol.check() == z3.sat; mdl = sol.model()
        _val = lambda x: mdl.eval(x, model_completion=True).as_long()
        order = [vars_.index(nm) for nm, b in bits]
        for op, w, got in zip(ops, want, ans['res']):
            wv = _val(w)
            gv = 0
            for idx in range(M.W):
                assign = [False] * len(vars_)
                for (nm, b), vi in zip(bits, order): assign[vi] = bool((idx >> b) & 1)
                from .unicheck import eval_bdd
                if eval_bdd(got, assign): gv |= 1 << idx
            done += 1
            if wv != gv: bad.append((op['op'], op.get('var'), hex(wv), hex(gv)))
    name = f'library-model conformance: {done} operations on {samples} random networks (n={n}, k={k}) agree with the real library'
    if bad: raise Inconclusive('library model disagrees with the real library: ' + str(bad[:3]))
    chk.obligation(name, 'conformance', 'holds', 0.0, False, {'operations': ['id', 'pre', 'post', 'steady', 'var_pre', 'var_post', 'state_var_true'], 'samples': samples})
