"""E-MIR fork mode: a MIR interpreter with a concrete heap and symbolic scalars (z3), fork-by-re-execution.
DESIGN.md 3.3.  Panics are first-class outcomes (class Panic)."""
import os
import re, sys, itertools
import z3
from .mir import parse_mir, load_source_facts, split_top, strip_generics, unescape, unescape_bytes

sys.setrecursionlimit(100000)

# =============================================================== values
_FORCE_UNSUPPORTED = os.environ.get('HV_FORCE_UNSUPPORTED', '')

class Cell:
    __slots__ = ('v',)
    def __init__(self, v=None): self.v = v
class Uninit:
    def __repr__(self): return 'UNINIT'
UNINIT = Uninit()
class Ptr:
    """pointer = cell + path of projections into aggregates"""
    __slots__ = ('cell', 'path')
    def __init__(self, cell, path=()): self.cell, self.path = cell, tuple(path)
    def get(self):
        v = self.cell.v
        for p in self.path: v = proj_get(v, p)
        return v
    def set(self, nv):
        if not self.path: self.cell.v = nv; return
        v = self.cell.v
        for p in self.path[:-1]: v = proj_get(v, p)
        proj_set(v, self.path[-1], nv)
    def sub(self, p): return Ptr(self.cell, self.path + (p,))
class Agg:
    """struct / tuple / enum variant / array"""
    __slots__ = ('name', 'variant', 'fields')
    def __init__(self, name, variant, fields): self.name, self.variant, self.fields = name, variant, list(fields)
    def __repr__(self): return f'{self.name}#{self.variant}{self.fields}'
class RString:
    __slots__ = ('chars',)
    def __init__(self, chars): self.chars = list(chars)
    def __repr__(self): return 'S' + repr(show(self.chars))
class RStr:   # &str value
    __slots__ = ('chars',)
    def __init__(self, chars): self.chars = tuple(chars)
    def __repr__(self): return 's' + repr(show(self.chars))
class RVec:
    __slots__ = ('items',)
    def __init__(self, items=()): self.items = list(items)
    def __repr__(self): return 'V' + repr(self.items)
class Slice:  # &[T] : view on an RVec
    __slots__ = ('vec', 'lo', 'hi')
    def __init__(self, vec, lo, hi): self.vec, self.lo, self.hi = vec, lo, hi
    def __len__(self): return self.hi - self.lo
class FnItem:
    def __init__(self, name): self.name = name
    def __repr__(self): return f'fn<{self.name}>'
class Closure:
    def __init__(self, span, caps): self.span, self.caps = span, caps
class PyFn:
    """a Python callable usable as a Rust closure / fn item (used by drivers, e.g. a recording progress callback)"""
    def __init__(self, f): self.f = f
class RMap:
    """HashMap / BTreeMap / HashSet / BTreeSet model: association list (values None for sets)"""
    __slots__ = ('kind', 'items')
    def __init__(self, kind, items=()): self.kind, self.items = kind, [list(x) for x in items]
    def __repr__(self): return f'{self.kind}{self.items!r}'
class RHeap:
    __slots__ = ('items',)
    def __init__(self): self.items = []
class PeekChars:
    def __init__(self, chars): self.chars, self.pos, self.peek_cell = list(chars), 0, None
class SeqIter:
    """iterator over a python list of already-built items (refs or values)"""
    def __init__(self, items): self.items, self.i = list(items), 0
class SliceIter:
    def __init__(self, sl): self.sl, self.i = sl, 0
class MapAdapter:
    def __init__(self, inner, f): self.inner, self.f = inner, f
class FmtArg:
    def __init__(self, ptr, kind, ty): self.ptr, self.kind, self.ty = ptr, kind, ty
class FmtArgs:
    def __init__(self, template, args): self.template, self.args = template, args
class Formatter:
    def __init__(self): self.out = []
class BoxRaw:
    """the raw pointer inside a Box (what `(box.0: Unique).0: NonNull` + Transmute yields)"""
    def __init__(self, cell): self.cell = cell
class Opaque:
    """a value the interpreter only passes around"""
    def __init__(self, what): self.what = what
    def __repr__(self): return f'<{self.what}>'

class Panic(Exception): pass
class Unsupported(Exception): pass
class Infeasible(Exception): pass

def show(chars): return ''.join(chr(c) if isinstance(c, int) else '¿' for c in chars)
def mkstr(s): return RString([ord(c) for c in s])
def mkref(s): return RStr([ord(c) for c in s])

def proj_get(v, p):
    if isinstance(v, Cell): return BoxRaw(v)      # projection into the Box struct itself
    if isinstance(v, BoxRaw): return v
    if isinstance(v, Agg): return v.fields[p]
    if isinstance(v, RVec): return v.items[p]
    if isinstance(v, list): return v[p]
    if isinstance(v, Slice): return v.vec.items[v.lo + p]
    raise Unsupported(f'projection {p} on {v!r}')
def proj_set(v, p, nv):
    if isinstance(v, Cell): v = v.v
    if isinstance(v, Agg): v.fields[p] = nv
    elif isinstance(v, RVec): v.items[p] = nv
    elif isinstance(v, list): v[p] = nv
    else: raise Unsupported(f'projection store {p} on {v!r}')

def deep_clone(v):
    if isinstance(v, Agg): return Agg(v.name, v.variant, [deep_clone(x) for x in v.fields])
    if isinstance(v, RString): return RString(v.chars)
    if isinstance(v, RVec): return RVec([deep_clone(x) for x in v.items])
    if isinstance(v, Cell): return Cell(deep_clone(v.v))   # Box
    if isinstance(v, RMap): return RMap(v.kind, [[deep_clone(k), deep_clone(x)] for k, x in v.items])
    return v

def has_sym(v):
    if z3.is_expr(v): return True
    if isinstance(v, Ptr): return has_sym(v.get())
    if isinstance(v, Cell): return has_sym(v.v)
    if isinstance(v, (RString, RStr)): return any(not isinstance(c, int) for c in v.chars)
    if isinstance(v, Agg): return any(has_sym(x) for x in v.fields)
    if isinstance(v, RVec): return any(has_sym(x) for x in v.items)
    if isinstance(v, RMap): return any(has_sym(k) or has_sym(x) for k, x in v.items)
    return False

def ckey(v):
    """hashable key of a fully concrete value (raises Unsupported on symbolic content)"""
    if isinstance(v, Ptr): v = v.get()
    if isinstance(v, Cell): v = v.v
    if isinstance(v, (RString, RStr)):
        if any(not isinstance(c, int) for c in v.chars): raise Unsupported('symbolic key')
        return ('s', tuple(v.chars))
    if isinstance(v, Agg): return ('a', v.variant, tuple(ckey(x) for x in v.fields))
    if isinstance(v, RVec): return ('v', tuple(ckey(x) for x in v.items))
    if isinstance(v, RMap): return ('m', tuple(sorted((ckey(k), ckey(x) if x is not None else None) for k, x in v.items)))
    if isinstance(v, (int, bool)) or v is None: return ('i', v)
    if z3.is_expr(v): raise Unsupported('symbolic key')
    if v == (): return ('u',)
    raise Unsupported(f'key {v!r}')

# =============================================================== path context (decision oracle)
class PathCtx:
    """One execution = one path; decisions not determined by the path condition are taken from `prefix`, new ones are
    taken in a default direction and the alternatives are pushed on `pending`.
    fresh=True: every query is decided by a fresh (non-incremental) solver -- much faster for wide bit-vectors."""
    def __init__(self, prefix=(), timeout_ms=20000, fresh=False):
        self.prefix, self.taken, self.pending = list(prefix), [], []
        self.timeout_ms = timeout_ms; self.fresh = fresh
        self.asserts = []
        self._solver = None
        self.nfresh = 0; self.queries = 0; self.choices = []
        self.assumptions = []
        self.decided = {}
    @property
    def solver(self):
        """incremental solver holding the path condition (created on demand)"""
        if self._solver is None:
            self._solver = z3.Solver(); self._solver.set('timeout', self.timeout_ms)
            for a in self.asserts: self._solver.add(a)
        return self._solver
    def add(self, cond):
        self.asserts.append(cond)
        if self._solver is not None: self._solver.add(cond)
    def assume(self, cond):
        self.assumptions.append(cond); self.add(cond)
    def _check(self, extra):
        """(result, model) of path condition & extra"""
        self.queries += 1
        if self.fresh:
            s = z3.Solver(); s.set('timeout', self.timeout_ms)
            for a in self.asserts: s.add(a)
            for e in extra: s.add(e)
            r = s.check()
            return r, (s.model() if r == z3.sat else None)
        s = self.solver
        s.push()
        for e in extra: s.add(e)
        r = s.check(); m = s.model() if r == z3.sat else None
        s.pop()
        return r, m
    def _sat(self, cond):
        r, _ = self._check([cond])
        if r == z3.unknown: raise Unsupported('solver: unknown in branch feasibility')
        return r == z3.sat
    def ask(self, cond):
        if isinstance(cond, bool): return cond
        cond = z3.simplify(cond)
        if z3.is_true(cond): return True
        if z3.is_false(cond): return False
        # a condition already decided on this path (structurally equal term) needs neither a query nor a decision
        key = cond.get_id()
        hit = self.decided.get(key)
        if hit is not None: return hit[0]
        if z3.is_not(cond):
            hit = self.decided.get(cond.arg(0).get_id())
            if hit is not None: return not hit[0]
        i = len(self.taken)
        if i < len(self.prefix):
            d = self.prefix[i]
            if d is not True and d is not False: raise Unsupported('prefix/decision mismatch')
        else:
            t_ok = self._sat(cond)
            f_ok = self._sat(z3.Not(cond)) if t_ok else True
            if t_ok and f_ok:
                self.pending.append(self.taken + [False]); d = True
            else: d = t_ok
        self.taken.append(d)
        self.add(cond if d else z3.Not(cond))
        self.decided[key] = (d, cond)
        return d
    def choose(self, n, tag=''):
        """nondeterministic concrete choice 0..n-1 (every alternative is explored)"""
        if n <= 1: return 0
        i = len(self.taken)
        if i < len(self.prefix):
            d = self.prefix[i]
            if isinstance(d, bool): raise Unsupported('prefix/choice mismatch')
        else:
            d = 0
            for alt in range(n - 1, 0, -1): self.pending.append(self.taken + [alt])
        self.taken.append(d); self.choices.append((tag, d, n))
        return d
    def valid(self, cond):
        """is `cond` implied by the path condition?  returns (True, None) or (False, model); unknown raises"""
        if isinstance(cond, bool): return (True, None) if cond else (False, self.model())
        r, m = self._check([z3.Not(cond)])
        if r == z3.unknown: raise Unsupported('solver: unknown in obligation')
        return (r == z3.unsat, m)
    def feasible(self):
        r, _ = self._check([])
        return r == z3.sat
    def model(self):
        r, m = self._check([])
        if r != z3.sat: raise Infeasible()
        return m

# =============================================================== character classes (ASCII exact + representatives)
WS_ASCII = (9, 10, 11, 12, 13, 32)
# representatives of non-ASCII classes: (code point, is_whitespace, is_alphanumeric)
REPS = [(0xA0, True, False), (0x3000, True, False), (0xE9, False, True), (0xDF, False, True), (0x416, False, True),
        (0xB2, False, True), (0x661, False, True), (0x20AC, False, False), (0xB7, False, False)]
def char_domain(c):
    """constraint: printable ASCII, ASCII whitespace, or one of the representatives"""
    return z3.Or([z3.And(z3.UGE(c, 32), z3.ULE(c, 126))] + [c == x for x in (9, 10, 13)] + [c == r[0] for r in REPS])
def name_char_domain(c):
    al = z3.Or(z3.And(z3.UGE(c, 48), z3.ULE(c, 57)), z3.And(z3.UGE(c, 65), z3.ULE(c, 90)), z3.And(z3.UGE(c, 97), z3.ULE(c, 122)), c == 95)
    return z3.Or([al] + [c == r[0] for r in REPS if r[2]])
def py_is_ws(c):
    if c < 128: return c in WS_ASCII
    for r in REPS:
        if r[0] == c: return r[1]
    return chr(c).isspace()
def py_is_alnum(c):
    if c < 128: return chr(c).isalnum()
    for r in REPS:
        if r[0] == c: return r[2]
    return chr(c).isalnum()

WRAPPER = re.compile(r'^(?:\*const |\*mut |&mut |&)?(?:std::|core::|alloc::)?(?:mem::|ptr::|boxed::)?(?:maybe_uninit::|manually_drop::)?(MaybeUninit|ManuallyDrop|MaybeDangling|Unique|NonNull|Box)<')

# =============================================================== the interpreter
class Interp:
    def __init__(self, repo, mirfile, step_budget=3_000_000):
        self.enums, self.structs, self.files = load_source_facts(repo)
        self.fns, self.consts = parse_mir(open(mirfile).read())
        self.by_last = {}
        for n, f in self.fns.items():
            key = re.sub(r'::<.*>$', '', n).split('::')[-1] if '{closure' not in n else n
            self.by_last.setdefault(key, []).append(f)
        self.closures = {f.span: f for f in self.fns.values() if f.span}
        self.ctx = None
        self.steps = 0; self.step_budget = step_budget
        self.impl_cache = {}
        self.memo = {}
        self.ext = []           # extension models: callables (interp, fname, f, base, trait, meth, selfty, args) -> value | NotImplemented
        self.intercept = {}     # local function name (last segment) -> callable(interp, args) replacing its MIR body
        self.executed = set()   # names of local MIR functions executed (evidence)
        self.models_used = set()
        self.max_perm = 3       # containers up to this size get every iteration order
        self.order_mode = 'perm'  # 'perm': every permutation (<= max_perm entries); 'global': one of three policies per path
        self.order_skipped = 0
        self.consts_cache = {}
        self.cp_cache = {}
    # ---------------------------------------------------------------- lookup helpers
    def fn(self, last, ty=None):
        c = self.by_last.get(last, [])
        if ty is not None:
            c = [f for f in c if (self.impl_span_info(f.name) or (None, None))[1] == ty]
        else:
            c2 = [f for f in c if '<impl at' not in f.name]
            c = c2 or c
        if len(c) != 1: raise Unsupported(f'function {last} (type {ty}): {len(c)} candidates in the MIR of the working tree')
        self._entry_fn = c[0]      # the next run() of this function comes from a harness: check the parameter count
        return c[0]
    # ---------------------------------------------------------------- places
    def parse_place(self, s, fn):
        key = (id(fn), s)
        r = self.memo.get(key)
        if r is None:
            r = self._parse_place(s.strip(), fn); self.memo[key] = r
        return r
    def _parse_place(self, s, fn):
        pos = 0
        def rec():
            nonlocal pos
            if s[pos] == '_':
                m = re.match(r'_(\d+)', s[pos:]); pos += m.end()
                loc = int(m.group(1)); base = [loc, [], fn.ltypes.get(loc)]
            elif s.startswith('(*', pos):
                pos += 2; base = rec(); base[1].append(('deref',))
                t = base[2]
                if t is not None:
                    t2 = re.sub(r'^(&mut |&|\*const |\*mut )', '', t)
                    if t2 == t:
                        m = re.match(r'^(?:std::boxed::)?Box<(.*)>$', t); t2 = m.group(1) if m else None
                    base[2] = t2
                assert s[pos] == ')', s; pos += 1
            elif s[pos] == '(':
                pos += 1; base = rec()
                if s.startswith(' as ', pos):
                    j = s.index(')', pos); base[1].append(('downcast', s[pos+4:j])); pos = j + 1
                elif s[pos] == '.':
                    m = re.match(r'\.(\d+): ', s[pos:]); pos += m.end()
                    start = pos; depth = 0
                    while True:
                        ch = s[pos]
                        if ch in '(<[': depth += 1
                        elif ch == '>' and s[pos-1] == '-': pass
                        elif ch in ')>]':
                            if depth == 0 and ch == ')': break
                            depth -= 1
                        pos += 1
                    ty = s[start:pos]; pos += 1
                    transparent = base[2] is not None and WRAPPER.match(base[2]) is not None
                    if not transparent: base[1].append(('field', int(m.group(1))))
                    base[2] = ty
                else: raise Unsupported('place ' + s)
            else: raise Unsupported('place ' + s)
            while pos < len(s) and s[pos] == '[':
                j = s.index(']', pos); inner = s[pos+1:j]; pos = j + 1
                if inner.startswith('_'): base[1].append(('index', int(inner[1:])))
                elif ' of ' in inner: base[1].append(('field', int(inner.split(' of ')[0])))
                else: raise Unsupported('place index ' + s)
                base[2] = None
            return base
        r = rec()
        if pos != len(s): raise Unsupported('place tail ' + s)
        return (r[0], tuple(r[1]))
    def place_ptr(self, fr, s, fn):
        loc, projs = self.parse_place(s, fn)
        p = Ptr(fr[loc])
        for pr in projs:
            k = pr[0]
            if k == 'deref':
                v = p.get()
                if isinstance(v, Ptr): p = v
                elif isinstance(v, Cell): p = Ptr(v)          # Box<T>
                elif isinstance(v, BoxRaw): p = Ptr(v.cell)
                elif isinstance(v, (Slice, RStr)): p = Ptr(Cell(v))
                else: raise Unsupported(f'deref of {v!r} in {s}')
            elif k == 'field': p = p.sub(pr[1])
            elif k == 'downcast': pass
            elif k == 'index':
                idx = fr[pr[1]].v; base = p.get()
                if isinstance(base, Slice): p = Ptr(Cell(base.vec)).sub(base.lo + idx)
                else: p = p.sub(idx)
        return p
    # ---------------------------------------------------------------- operands / rvalues
    def const(self, c):
        r = self.consts_cache.get(c)
        if r is None:
            r = self._const(c.strip())
            if not isinstance(r, (Agg, RVec, Cell, RMap, RString)): self.consts_cache[c] = (r,)
            return r
        return r[0]
    def _const(self, c):
        if c in ('true', 'false'): return c == 'true'
        if c == '()': return ()
        m = re.match(r'^(-?\d+)_(\w+)$', c)
        if m: return int(m.group(1))
        if c.startswith('"'): return RStr([ord(x) for x in unescape(c[1:-1])])
        if c.startswith('b"'): return ('bytes', unescape_bytes(c[2:-1]))
        if c.startswith("'"): return ord(unescape(c[1:-1]))
        m = re.match(r'^(?:std::option::|core::option::)?Option::<.*>::None$', c)
        if m: return Agg('Option', 0, [])
        m = re.match(r'^ZeroSized: \{closure@([^}]*)\}$', c)
        if m: return Closure(m.group(1), [])
        m = re.match(r'^ZeroSized: (.+)$', c)
        if m: return FnItem(m.group(1))
        m = re.match(r'^(.*)::promoted\[(\d+)\]$', c)
        if m:
            key = [k for k in self.consts if k.endswith(f'::promoted[{m.group(2)}]') and strip_generics(m.group(1)).endswith(strip_generics(k.rsplit('::promoted', 1)[0]))]
            if len(key) != 1:
                key = [k for k in key if strip_generics(k.rsplit('::promoted', 1)[0]) == strip_generics(m.group(1))]
            if len(key) != 1: raise Unsupported('promoted ' + c)
            return Ptr(Cell(self.run(self.consts[key[0]], []))) if False else self.run(self.consts[key[0]], [])
        return FnItem(c)
    def operand(self, fr, o, fn):
        o = o.strip()
        if o.startswith(('copy ', 'move ')):
            return self.place_ptr(fr, o[5:], fn).get()
        if o.startswith('const '): return self.const(o[6:])
        if o.startswith('no_retag '): return self.operand(fr, o[9:], fn)
        return FnItem(o)
    def int_width(self, fn, *operands):
        for o in operands:
            o = o.strip()
            m = re.search(r'_(u8|u16|u32|u64|usize|i8|i16|i32|i64|isize|u128|i128)$', o)
            t = m.group(1) if m else None
            if t is None:
                m = re.match(r'^(?:copy|move) _(\d+)$', o)
                if m: t = fn.ltypes.get(int(m.group(1)))
            if t in INT_T: return INT_T[t]
        return (64, False)
    def rvalue(self, fr, rv, fn):
        rv = rv.strip()
        if rv.startswith('&mut '): return self.place_ptr(fr, rv[5:], fn)
        if rv.startswith('&raw const ') or rv.startswith('&raw mut '): return self.place_ptr(fr, rv.split(' ', 2)[2], fn)
        if rv.startswith('&'):
            return self.place_ptr(fr, rv[1:].replace('fake shallow ', ''), fn)
        m = re.match(r'^discriminant\((.+)\)$', rv)
        if m:
            v = self.place_ptr(fr, m.group(1), fn).get()
            if not isinstance(v, Agg) or v.variant is None: raise Unsupported(f'discriminant of {v!r}')
            return v.variant
        m = re.match(r'^(Add|Sub|Mul|Div|Rem|Eq|Ne|Lt|Le|Gt|Ge|AddWithOverflow|SubWithOverflow|MulWithOverflow|BitAnd|BitOr|BitXor|Shl|Shr|Offset|Cmp)\((.*)\)$', rv)
        if m:
            ops = split_top(m.group(2))
            a, b = [self.operand(fr, x, fn) for x in ops]
            return self.binop(m.group(1), a, b, self.int_width(fn, *ops))
        m = re.match(r'^Not\((.*)\)$', rv)
        if m:
            a = self.operand(fr, m.group(1), fn)
            if z3.is_expr(a): return z3.Not(a) if z3.is_bool(a) else ~a
            if isinstance(a, bool): return not a
            raise Unsupported('Not on int')
        m = re.match(r'^Neg\((.*)\)$', rv)
        if m: return -self.operand(fr, m.group(1), fn)
        m = re.match(r'^PtrMetadata\((.*)\)$', rv)
        if m:
            a = self.operand(fr, m.group(1), fn)
            if isinstance(a, Ptr): a = a.get()
            if isinstance(a, Slice): return a.hi - a.lo
            if isinstance(a, RStr): return len(a.chars)
            if isinstance(a, RVec): return len(a.items)
            raise Unsupported(rv)
        m = re.match(r'^CopyForDeref\((.*)\)$', rv)
        if m: return self.place_ptr(fr, m.group(1), fn).get()
        if rv.startswith(('copy ', 'move ', 'const ', 'no_retag ')):
            m = re.match(r'^(.*) as (.*) \((\w+)(\(.*\))?\)$', rv)
            if m:
                kind = m.group(3)
                v = self.operand(fr, m.group(1), fn)
                if kind == 'IntToInt':
                    if isinstance(v, bool): v = int(v)
                    w, signed = INT_T.get(m.group(2).strip(), (64, False))
                    if isinstance(v, int):
                        v &= (1 << w) - 1
                        if signed and v >> (w - 1): v -= 1 << w
                    return v
                if kind == 'PointerCoercion' and 'Unsize' in (m.group(4) or ''):
                    tgt = v.get() if isinstance(v, Ptr) else v
                    if isinstance(tgt, Agg) and tgt.name == 'array': return Slice(RVec(tgt.fields), 0, len(tgt.fields))
                    return v
                if kind in ('PointerCoercion', 'Transmute', 'PtrToPtr'):
                    if isinstance(v, BoxRaw): return v
                    return v
                raise Unsupported('cast ' + rv)
            return self.operand(fr, rv, fn)
        if rv.startswith('[') and rv.endswith(']'):
            m = re.match(r'^\[(.*); (\d+)\]$', rv)
            if m and not split_top(rv[1:-1])[1:]:
                x = self.operand(fr, m.group(1), fn)
                return Agg('array', None, [deep_clone(x) for _ in range(int(m.group(2)))])
            return Agg('array', None, [self.operand(fr, x, fn) for x in split_top(rv[1:-1])])
        if rv.startswith('(') and rv.endswith(')'):
            return Agg('tuple', None, [self.operand(fr, x, fn) for x in split_top(rv[1:-1])])
        m = re.match(r'^\{closure@([^}]*)\}(?: \{(.*)\})?$', rv)
        if m:
            caps = [self.operand(fr, x.split(': ', 1)[1], fn) for x in split_top(m.group(2))] if m.group(2) else []
            return Closure(m.group(1), caps)
        return self.aggregate(fr, rv, fn)
    def aggregate(self, fr, rv, fn):
        rv = strip_generics(rv)
        m = re.match(r'^([^({]+?)(?:\((.*)\)| \{(.*)\})?$', rv)
        if not m: raise Unsupported('rvalue ' + rv)
        path = m.group(1).strip()
        segs = path.split('::')
        if m.group(3) is not None:
            name = segs[-1]
            fields = {}
            for x in split_top(m.group(3)):
                k, v = x.split(': ', 1); fields[k] = self.operand(fr, v, fn)
            if name in self.structs: order = self.structs[name]
            elif name == 'Range': order = ['start', 'end']
            elif name == 'RangeFrom': order = ['start']
            elif name == 'RangeTo': order = ['end']
            else: raise Unsupported('struct ' + rv)
            return Agg(name, None, [fields[k] for k in order])
        args = [self.operand(fr, x, fn) for x in split_top(m.group(2))] if m.group(2) is not None else []
        if len(segs) >= 2 and segs[-2] in self.enums and segs[-1] in self.enums[segs[-2]]:
            return Agg(segs[-2], self.enums[segs[-2]].index(segs[-1]), args)
        if len(segs) == 1:
            for en in ('Ordering',):
                if segs[0] in self.enums[en]: return Agg(en, self.enums[en].index(segs[0]), args)
            cands = [en for en, vs in self.enums.items() if segs[0] in vs]
            pref = [en for en in getattr(self, 'enum_pref', []) if en in cands]
            if pref: cands = pref[:1]
            if len(cands) == 1: return Agg(cands[0], self.enums[cands[0]].index(segs[0]), args)
        raise Unsupported('aggregate ' + rv)
    def binop(self, op, a, b, wt=(64, False)):
        if z3.is_expr(a) or z3.is_expr(b):
            if (z3.is_expr(a) and z3.is_bool(a)) or (z3.is_expr(b) and z3.is_bool(b)):
                A = a if z3.is_expr(a) else z3.BoolVal(bool(a)); B = b if z3.is_expr(b) else z3.BoolVal(bool(b))
                if op == 'Eq': return A == B
                if op == 'Ne': return A != B
                if op == 'BitAnd': return z3.And(A, B)
                if op == 'BitOr': return z3.Or(A, B)
                if op == 'BitXor': return z3.Xor(A, B)
                raise Unsupported('sym bool binop ' + op)
            w = a.size() if z3.is_expr(a) else b.size()
            A = a if z3.is_expr(a) else z3.BitVecVal(a, w); B = b if z3.is_expr(b) else z3.BitVecVal(b, w)
            if op == 'Eq': return A == B
            if op == 'Ne': return A != B
            if op == 'Lt': return z3.ULT(A, B)
            if op == 'Le': return z3.ULE(A, B)
            if op == 'Gt': return z3.UGT(A, B)
            if op == 'Ge': return z3.UGE(A, B)
            if op == 'BitAnd': return A & B
            if op == 'BitOr': return A | B
            if op == 'BitXor': return A ^ B
            raise Unsupported('sym binop ' + op)
        w, signed = wt
        lo, hi = (-(1 << (w - 1)), (1 << (w - 1)) - 1) if signed else (0, (1 << w) - 1)
        if isinstance(a, bool) and isinstance(b, bool):
            if op == 'BitAnd': return a and b
            if op == 'BitOr': return a or b
            if op == 'BitXor': return a != b
        def wrap(x):
            x &= (1 << w) - 1
            if signed and x >> (w - 1): x -= 1 << w
            return x
        if op == 'Add': return wrap(a + b)
        if op == 'Sub': return wrap(a - b)
        if op == 'Mul': return wrap(a * b)
        if op == 'Div':
            if b == 0: raise Panic('division by zero')
            return int(a / b) if signed else a // b
        if op == 'Rem':
            if b == 0: raise Panic('remainder by zero')
            return a - b * int(a / b) if signed else a % b
        if op == 'AddWithOverflow': r = a + b; return Agg('tuple', None, [wrap(r), not (lo <= r <= hi)])
        if op == 'SubWithOverflow': r = a - b; return Agg('tuple', None, [wrap(r), not (lo <= r <= hi)])
        if op == 'MulWithOverflow': r = a * b; return Agg('tuple', None, [wrap(r), not (lo <= r <= hi)])
        if op == 'BitAnd': return a & b
        if op == 'BitOr': return a | b
        if op == 'BitXor': return a ^ b
        if op == 'Shl': return wrap(a << b)
        if op == 'Shr': return a >> b
        if op == 'Cmp': return Agg('Ordering', 0 if a < b else (1 if a == b else 2), [])
        return {'Eq': a == b, 'Ne': a != b, 'Lt': a < b, 'Le': a <= b, 'Gt': a > b, 'Ge': a >= b}[op]
    # ---------------------------------------------------------------- running
    def truth(self, v):
        if isinstance(v, bool): return v
        if isinstance(v, int): return v != 0
        if z3.is_expr(v): return self.ctx.ask(v)
        raise Unsupported(f'truth of {v!r}')
    def term(self, t, fn):
        key = (id(fn), 'T', t)
        r = self.memo.get(key)
        if r is not None: return r
        r = self._term(t); self.memo[key] = r
        return r
    def _term(self, t):
        if t == 'return;': return ('return',)
        if t == 'unreachable;': return ('unreachable',)
        m = re.match(r'^goto -> (bb\d+);$', t)
        if m: return ('goto', m.group(1))
        m = re.match(r'^drop\(.*\) -> \[return: (bb\d+),.*\];$', t)
        if m: return ('goto', m.group(1))
        m = re.match(r'^switchInt\((.*)\) -> \[(.*)\];$', t)
        if m:
            arms = []
            for a in m.group(2).split(', '):
                k, tg = a.strip().split(': ')
                arms.append((None if k == 'otherwise' else int(k), tg))
            return ('switch', m.group(1), arms)
        m = re.match(r'^assert\((!?)(.*?), "(.*?)"(.*)\) -> \[success: (bb\d+), .*\];$', t)
        if m: return ('assert', bool(m.group(1)), m.group(2), m.group(3), m.group(5))
        m = re.match(r'^(.+?) = (.+) -> \[return: (bb\d+), .*\];$', t) or re.match(r'^(.+?) = (.+) -> (bb\d+);$', t)
        if m:
            dest, callexpr, tgt = m.groups()
            fname, argl = split_call(callexpr)
            return ('call', dest, fname, argl, tgt)
        m = re.match(r'^(.+?) = (.+) -> unwind', t)
        if m:
            fname, argl = split_call(m.group(2))
            return ('diverge', fname, argl)
        if t.startswith('resume') or t.startswith('terminate'): return ('unreachable',)
        raise Unsupported('terminator ' + t)
    def run(self, fn, args):
        self.executed.add(fn.name)
        entry = fn is getattr(self, '_entry_fn', None); self._entry_fn = None
        if entry and fn.nargs != len(args): raise Unsupported(f'signature of {fn.name} changed: {fn.nargs} parameters in the MIR of the working tree, the harness passes {len(args)}')
        fr = [Cell() for _ in range(fn.nlocals + 1)]
        z = self.memo.get((id(fn), 'ZST'))
        if z is None:
            z = []
            for loc, ty in fn.ltypes.items():
                m = re.match(r'^(?:for<[^>]*> )?(?:unsafe )?(?:extern "[^"]*" )?fn\(.*\)(?: -> .*?)? \{(.+)\}$', ty)
                if m: z.append((loc, FnItem(m.group(1)))); continue
                m = re.match(r'^\{closure@([^}]*)\}$', ty)
                if m: z.append((loc, Closure(m.group(1), [])))
            self.memo[(id(fn), 'ZST')] = z
        for loc, v in z: fr[loc].v = v
        if len(fr) <= len(args): fr += [Cell() for _ in range(len(args) + 1 - len(fr))]
        for i, a in enumerate(args): fr[i + 1].v = a
        bb = 'bb0'
        while True:
            stmts = fn.blocks[bb]
            for s in stmts[:-1]: self.stmt(fr, s, fn)
            self.steps += len(stmts)
            if self.steps > self.step_budget: raise Unsupported('step budget exhausted')
            t = self.term(stmts[-1], fn)
            k = t[0]
            if k == 'return': return fr[0].v
            if k == 'goto': bb = t[1]; continue
            if k == 'switch':
                v = self.operand(fr, t[1], fn)
                tgt = None
                if z3.is_expr(v) and z3.is_bool(v):
                    v = 1 if self.ctx.ask(v) else 0
                if z3.is_expr(v):
                    for kk, tg in t[2]:
                        if kk is None: tgt = tg; break
                        if self.ctx.ask(v == z3.BitVecVal(kk, v.size())): tgt = tg; break
                else:
                    if isinstance(v, bool): v = int(v)
                    for kk, tg in t[2]:
                        if kk is None or kk == v: tgt = tg; break
                if tgt is None: raise Panic('switchInt: no arm (unreachable)')
                bb = tgt; continue
            if k == 'call':
                args2 = [self.operand(fr, a, fn) for a in t[3]]
                r = self.call(t[2], args2)
                self.place_ptr(fr, t[1], fn).set(r)
                bb = t[4]; continue
            if k == 'assert':
                c = self.operand(fr, t[2], fn)
                ok = self.truth(c)
                if t[1]: ok = not ok
                if not ok: raise Panic('assert: ' + t[3])
                bb = t[4]; continue
            if k == 'unreachable': raise Panic('unreachable reached in ' + fn.name)
            if k == 'diverge':
                args2 = [self.operand(fr, a, fn) for a in t[2]]
                self.call(t[1], args2)
                raise Panic('diverging call returned: ' + t[1])
    def stmt(self, fr, s, fn):
        key = (id(fn), 'S', s)
        r = self.memo.get(key)
        if r is None:
            if s.startswith(('StorageLive', 'StorageDead', 'nop', 'FakeRead', 'PlaceMention', 'Retag', 'Deinit', 'AscribeUserType', 'Coverage', 'ConstEvalCounter', 'BackwardIncompatibleDropHint')): r = (None,)
            else:
                m = re.match(r'^(.+?) = (.*);$', s)
                if not m: raise Unsupported('stmt ' + s)
                r = (m.group(1), m.group(2))
            self.memo[key] = r
        if r[0] is None: return
        self.place_ptr(fr, r[0], fn).set(self.rvalue(fr, r[1], fn))
    # ---------------------------------------------------------------- impl resolution
    def impl_span_info(self, name):
        """(trait or None, type, derived?) for '<impl at file:l:c: l:c>' names, read from the source text"""
        if name in self.impl_cache: return self.impl_cache[name]
        m = re.search(r'<impl at ([^:]+):(\d+):(\d+): (\d+):(\d+)>', name)
        r = None
        if m:
            lines = self.files.get(m.group(1)); l, c = int(m.group(2)), int(m.group(3))
            txt = ' '.join(lines[l-1:l+2])[c-1:]
            mm = re.match(r'impl(?:<[^>]*>)?\s+(?:([\w:]+)(?:<[^>]*>)?\s+for\s+)?([\w:]+)', txt)
            if mm: r = (mm.group(1).split('::')[-1] if mm.group(1) else None, mm.group(2).split('::')[-1], False)
            else:
                trait = re.match(r'(\w+)', txt).group(1)
                j = l
                while not re.search(r'\b(enum|struct)\s+(\w+)', lines[j-1]): j += 1
                r = (trait, re.search(r'\b(enum|struct)\s+(\w+)', lines[j-1]).group(2), True)
        self.impl_cache[name] = r
        return r
    def find_impl(self, ty, trait, meth, manual_only=False):
        for c in self.by_last.get(meth, []):
            sp = self.impl_span_info(c.name)
            if sp and sp[0] == trait and sp[1] == ty and not (manual_only and sp[2]): return c
        return None
    def resolve_local(self, fname):
        f = strip_generics(fname)
        m = re.match(r'^<(.+) as (.+)>::(\w+)$', f)
        if m:
            ty, trait, meth = m.groups()
            ty = re.sub(r"<.*$", '', ty.replace('&', '').replace('mut ', '').strip()).split('::')[-1]
            return self.find_impl(ty, re.sub(r'<.*$', '', trait).split('::')[-1], meth)
        if '{closure#' in f:
            return self.fns.get(f) or self.fns.get(fname)
        segs = f.split('::')
        last = segs[-1]
        cands = list(self.by_last.get(last, []))
        if len(segs) >= 2 and segs[-2][:1].isupper():
            ty = segs[-2]
            if (ty not in self.structs and ty not in self.enums) or ty in ('Option', 'Result', 'ControlFlow', 'Ordering'): return None
            for c in cands:
                sp = self.impl_span_info(c.name)
                if sp and sp[1] == ty and sp[0] is None: return c
            return None
        cands = [c for c in cands if '<impl at' not in c.name and '{closure' not in c.name]
        if len(cands) == 1: return cands[0]
        if len(cands) > 1:
            # disambiguate by module path suffix
            for c in cands:
                if strip_generics(c.name).endswith(f) or f.endswith(strip_generics(c.name)): return c
        return None
    def call_value(self, f, args):
        if isinstance(f, Ptr): f = f.get()
        if isinstance(f, Closure):
            cf = self.closures[f.span]
            env = Agg('closure', None, f.caps)
            byref = (cf.ltypes.get(1) or '').startswith('&')
            return self.run(cf, [Ptr(Cell(env)) if byref else env] + list(args))
        if isinstance(f, FnItem): return self.call(f.name, list(args))
        if isinstance(f, PyFn): return f.f(*args)
        raise Unsupported(f'call_value {f!r}')
    # ---------------------------------------------------------------- equality / ordering
    def equal(self, a, b):
        while isinstance(a, Ptr): a = a.get()
        while isinstance(b, Ptr): b = b.get()
        if isinstance(a, Cell): a = a.v
        if isinstance(b, Cell): b = b.v
        if isinstance(a, (RString, RStr)) and isinstance(b, (RString, RStr)):
            if len(a.chars) != len(b.chars): return False
            conds = []
            for x, y in zip(a.chars, b.chars):
                if isinstance(x, int) and isinstance(y, int):
                    if x != y: return False
                else:
                    if not (z3.is_expr(x) or isinstance(x, int)) or not (z3.is_expr(y) or isinstance(y, int)): raise Unsupported(f'string with a non-character element: {x!r} / {y!r}')
                    conds.append((x if z3.is_expr(x) else z3.BitVecVal(x, 32)) == (y if z3.is_expr(y) else z3.BitVecVal(y, 32)))
            return z3.And(conds) if conds else True
        if isinstance(a, Agg) and isinstance(b, Agg):
            if a.variant != b.variant or len(a.fields) != len(b.fields): return False
            return self.all_equal(zip(a.fields, b.fields))
        if isinstance(a, (RVec, Slice)) and isinstance(b, (RVec, Slice)):
            ai = a.items if isinstance(a, RVec) else a.vec.items[a.lo:a.hi]
            bi = b.items if isinstance(b, RVec) else b.vec.items[b.lo:b.hi]
            if len(ai) != len(bi): return False
            return self.all_equal(zip(ai, bi))
        if isinstance(a, RMap) and isinstance(b, RMap):
            if len(a.items) != len(b.items): return False
            if has_sym(a) or has_sym(b):
                # every key of a has an equal key in b with equal value (keys are unique within a map)
                conds = []
                for ka, va in a.items:
                    alts = []
                    for kb, vb in b.items:
                        e = self.all_equal([(ka, kb)] + ([(va, vb)] if va is not None else []))
                        if e is True: alts = [True]; break
                        if e is not False: alts.append(e)
                    if not alts: return False
                    if alts != [True]: conds.append(z3.Or(alts))
                return z3.And(conds) if conds else True
            return ckey(a) == ckey(b)
        if z3.is_expr(a) or z3.is_expr(b):
            if (z3.is_expr(a) and z3.is_bool(a)) or (z3.is_expr(b) and z3.is_bool(b)):
                return (a if z3.is_expr(a) else z3.BoolVal(a)) == (b if z3.is_expr(b) else z3.BoolVal(b))
            w = a.size() if z3.is_expr(a) else b.size()
            return (a if z3.is_expr(a) else z3.BitVecVal(a, w)) == (b if z3.is_expr(b) else z3.BitVecVal(b, w))
        if isinstance(a, Opaque) or isinstance(b, Opaque): return a is b
        return a == b
    def all_equal(self, pairs):
        conds = []
        for x, y in pairs:
            r = self.equal(x, y)
            if r is False: return False
            if r is not True: conds.append(r)
        return z3.And(conds) if conds else True
    def compare(self, a, b):
        """Ordering (-1/0/1) of concrete values by derived / std Ord"""
        while isinstance(a, Ptr): a = a.get()
        while isinstance(b, Ptr): b = b.get()
        ka, kb = ckey(a), ckey(b)
        return -1 if ka < kb else (0 if ka == kb else 1)
    # ---------------------------------------------------------------- formatting
    def render_args(self, fa):
        if fa.template is None: return list(fa.args[0].chars)
        out, t, i, ai = [], fa.template, 0, 0
        while t[i] != 0:
            b = t[i]
            if b == 0xC0: out.extend(self.render(fa.args[ai])); ai += 1; i += 1
            elif b < 0x80: out.extend(decode_utf8(t[i+1:i+1+b])); i += 1 + b
            elif b & 0xF7 == 0xC0 and b & 0x08:
                # explicit argument position: two bytes (little endian) follow
                idx = t[i+1] | (t[i+2] << 8); out.extend(self.render(fa.args[idx])); ai = idx + 1; i += 3
            else: raise Unsupported(f'format template byte {b:#x}')
        return out
    def render(self, a):
        v = a.ptr.get() if isinstance(a.ptr, Ptr) else a.ptr
        while isinstance(v, Ptr): v = v.get()
        if isinstance(v, Cell): v = v.v
        if isinstance(v, BoxRaw):
            # Display / Debug of Box<T> forwards to T
            return self.render(FmtArg(Ptr(v.cell), a.kind, a.ty))
        if isinstance(v, (RString, RStr)):
            if a.kind == 'display': return list(v.chars)
            return [34] + list(v.chars) + [34]
        if isinstance(v, int) and not isinstance(v, bool) and 'char' in a.ty: return [v] if a.kind == 'display' else [39, v, 39]
        if z3.is_expr(v): return [v]
        if isinstance(v, bool): return [ord(c) for c in ('true' if v else 'false')]
        if isinstance(v, int): return [ord(c) for c in str(v)]
        if isinstance(v, Agg) and (v.name in self.enums or v.name in self.structs) and v.name not in ('Option', 'Result'):
            impl = self.find_impl(v.name, 'Display' if a.kind == 'display' else 'Debug', 'fmt')
            if impl is None: raise Unsupported(f'no {a.kind} impl for {v.name}')
            fm = Formatter()
            p = a.ptr
            while isinstance(p.get(), Ptr): p = p.get()
            self.run(impl, [p, Ptr(Cell(fm))])
            return fm.out
        if isinstance(v, Agg) and v.name == 'Option' and a.kind == 'debug':
            if v.variant == 0: return [ord(c) for c in 'None']
            return [ord(c) for c in 'Some('] + self.render(FmtArg(Ptr(Cell(v.fields[0])), 'debug', '')) + [41]
        if isinstance(v, (RVec, Slice)) and a.kind == 'debug':
            items = v.items if isinstance(v, RVec) else v.vec.items[v.lo:v.hi]
            out = [91]
            for i, x in enumerate(items):
                if i: out += [44, 32]
                out += self.render(FmtArg(Ptr(Cell(x)), 'debug', ''))
            return out + [93]
        raise Unsupported(f'render {v!r} as {a.kind}')
    def debug_finish(self, fm, name, fields, named=None):
        fm.out.extend(name.chars)
        if named is None:
            fm.out.append(40)
            for i, a in enumerate(fields):
                if i: fm.out.extend([44, 32])
                fm.out.extend(self.render(FmtArg(a if isinstance(a, Ptr) else Ptr(Cell(a)), 'debug', '')))
            fm.out.append(41)
        else:
            fm.out.extend([32, 123, 32])
            for i, (n, a) in enumerate(zip(named, fields)):
                if i: fm.out.extend([44, 32])
                fm.out.extend(n.chars); fm.out.extend([58, 32])
                fm.out.extend(self.render(FmtArg(a if isinstance(a, Ptr) else Ptr(Cell(a)), 'debug', '')))
            fm.out.extend([32, 125])
        return Agg('Result', 0, [()])
    # ---------------------------------------------------------------- containers
    def map_find(self, mp, key):
        """entry [k, v] of an RMap equal to key (forks on symbolic equality), or None"""
        if not has_sym(key):
            kk = None
            for ent in mp.items:
                if has_sym(ent[0]):
                    if self.truth(self.equal(ent[0], key)): return ent
                else:
                    if kk is None: kk = ckey(key)
                    if ckey(ent[0]) == kk: return ent
            return None
        for ent in mp.items:
            if self.truth(self.equal(ent[0], key)): return ent
        return None
    def iter_order(self, mp):
        """iteration order of a container: BTree* sorted; Hash*: every permutation for small containers"""
        items = list(mp.items)
        if mp.kind.startswith('BTree'):
            return sorted(items, key=lambda kv: ckey(kv[0]))
        n = len(items)
        if n <= 1: return items
        if self.order_mode == 'global':
            pol = self.global_policy()
            if pol == 0: return items
            if pol == 1: return list(reversed(items))
            return items[1:] + items[:1]
        if n > self.max_perm:
            self.order_skipped += 1
            return items
        out = []
        rest = list(items)
        while len(rest) > 1:
            i = self.ctx.choose(len(rest), 'hash-order')
            out.append(rest.pop(i))
        return out + rest
    def global_policy(self):
        """one nondeterministic choice per path: 0 insertion order, 1 reversed, 2 rotated (applied to every hash container
        and to heap ties on that path)"""
        if getattr(self.ctx, 'order_policy', None) is None: self.ctx.order_policy = self.ctx.choose(3, 'global-hash-order')
        return self.ctx.order_policy
    # ---------------------------------------------------------------- calls
    def call(self, fname, args):
        f = strip_generics(fname)
        if _FORCE_UNSUPPORTED and _FORCE_UNSUPPORTED in fname: raise Unsupported('call ' + fname + ' (forced by HV_FORCE_UNSUPPORTED: self-test of the unexplored / fallback path)')
        g = lambda x: x.get() if isinstance(x, Ptr) else x
        def gg(x):
            while isinstance(x, Ptr): x = x.get()
            return x
        m = re.match(r'^<(.+) as (.+)>::(\w+)$', f)
        if m:
            selfty = m.group(1)
            trait = re.sub(r'<.*$', '', m.group(2)).split('::')[-1]; meth = m.group(3)
        else: selfty = trait = meth = None
        base = f
        for _ in range(5): base = re.sub(r'<[^<>]*>', '', base)
        # ----- extension models (biodivine etc.)
        for ext in self.ext:
            r = ext(self, fname, f, base, trait, meth, selfty, args)
            if r is not NotImplemented: return r
        # ----- intercepts of local functions
        last = base.split('::')[-1]
        if last in self.intercept and trait is None:
            r = self.intercept[last](self, args)
            if r is not NotImplemented: return r
        # ----- structural traits
        if trait == 'Clone' and meth == 'clone':
            v = gg(args[0])
            return deep_clone(v)
        if trait in ('PartialEq', 'Eq') and meth in ('eq', 'ne'):
            ty = re.sub(r'<.*$', '', selfty.replace('&', '').strip()).split('::')[-1]
            impl = self.find_impl(ty, 'PartialEq', 'eq', manual_only=True) if ty in self.structs or ty in self.enums else None
            if impl is not None and meth == 'eq': return self.run(impl, [a if isinstance(a, Ptr) else Ptr(Cell(a)) for a in args])
            r = self.equal(gg(args[0]), gg(args[1]))
            if meth == 'ne': r = z3.Not(r) if z3.is_expr(r) else (not r)
            return r
        if trait in ('Ord', 'PartialOrd') and meth in ('cmp', 'partial_cmp', 'lt', 'le', 'gt', 'ge', 'max', 'min'):
            ty = re.sub(r'<.*$', '', selfty.replace('&', '').strip()).split('::')[-1]
            impl = self.find_impl(ty, trait, meth, manual_only=True) if ty in self.structs or ty in self.enums else None
            if impl is not None: return self.run(impl, args)
            c = self.compare(args[0], args[1])
            if meth == 'cmp': return Agg('Ordering', c + 1, [])
            if meth == 'partial_cmp': return Agg('Option', 1, [Agg('Ordering', c + 1, [])])
            if meth in ('max', 'min'):
                return args[0] if (c > 0) == (meth == 'max') and c != 0 else args[1]
            return {'lt': c < 0, 'le': c <= 0, 'gt': c > 0, 'ge': c >= 0}[meth]
        if trait == 'Try' and meth == 'branch':
            v = args[0]
            if v.name == 'Result':
                return Agg('ControlFlow', 0, [v.fields[0]]) if v.variant == 0 else Agg('ControlFlow', 1, [Agg('Result', 1, [v.fields[0]])])
            if v.name == 'Option':
                return Agg('ControlFlow', 0, [v.fields[0]]) if v.variant == 1 else Agg('ControlFlow', 1, [Agg('Option', 0, [])])
        if trait == 'FromResidual' and meth == 'from_residual': return args[0]
        if trait == 'From' and meth == 'from':
            loc = self.resolve_local(fname)
            if loc is not None: return self.run(loc, args)
            return args[0]
        if trait == 'Into' and meth == 'into': return args[0]
        if trait == 'ToString' and meth == 'to_string':
            v = gg(args[0])
            if isinstance(v, (RStr, RString)): return RString(v.chars)
            if (isinstance(v, int) and not isinstance(v, bool) and 'char' in selfty) or z3.is_expr(v): return RString([v])
            return RString(self.render(FmtArg(args[0] if isinstance(args[0], Ptr) else Ptr(Cell(v)), 'display', selfty)))
        if trait in ('Deref', 'DerefMut', 'AsRef', 'Borrow') and meth in ('deref', 'deref_mut', 'as_ref', 'borrow'):
            v = g(args[0])
            if isinstance(v, RString): return RStr(v.chars)
            if isinstance(v, RVec): return Slice(v, 0, len(v.items))
            if isinstance(v, Cell): return Ptr(v)
            return args[0]
        if trait in ('Add', 'Sub', 'Mul') and meth in ('add', 'sub', 'mul') and len(args) == 2:
            a_, b_ = gg(args[0]), gg(args[1])
            if isinstance(a_, int) and isinstance(b_, int) and not isinstance(a_, bool) and not isinstance(b_, bool):
                # arithmetic through references (<&i32 as Add<i32>>::add ..): small counters, checked like the overflow-checked MIR ops
                r_ = a_ + b_ if meth == 'add' else a_ - b_ if meth == 'sub' else a_ * b_
                if abs(r_) >= 1 << 31: raise Panic('attempt to ' + meth + ' with overflow')
                return r_
        if trait == 'Add' and meth == 'add' and isinstance(args[0], RString):
            return RString(list(args[0].chars) + list(gg(args[1]).chars))
        if trait == 'Default' and meth == 'default':
            if 'String' in selfty: return RString([])
            if 'Vec' in selfty: return RVec()
            if 'HashMap' in selfty or 'BTreeMap' in selfty or 'HashSet' in selfty: return RMap(re.search(r'(HashMap|BTreeMap|HashSet|BTreeSet)', selfty).group(1))
        if trait == 'Drop' and meth == 'drop': return ()
        if trait in ('Index', 'IndexMut') and meth in ('index', 'index_mut'):
            sl, r = g(args[0]), args[1]
            if isinstance(sl, RMap):
                ent = self.map_find(sl, r)
                if ent is None: raise Panic('HashMap index: key not found')
                return Ptr(Cell(ent)).sub(1)
            if isinstance(sl, RVec): sl = Slice(sl, 0, len(sl.items))
            if isinstance(sl, Slice):
                n = sl.hi - sl.lo
                if isinstance(r, Agg) and r.name == 'RangeFrom':
                    if r.fields[0] > n: raise Panic('slice index starts out of range')
                    return Slice(sl.vec, sl.lo + r.fields[0], sl.hi)
                if isinstance(r, Agg) and r.name == 'RangeTo':
                    if r.fields[0] > n: raise Panic('slice index ends out of range')
                    return Slice(sl.vec, sl.lo, sl.lo + r.fields[0])
                if isinstance(r, Agg) and r.name == 'Range':
                    if r.fields[0] > r.fields[1] or r.fields[1] > n: raise Panic('slice index range out of range')
                    return Slice(sl.vec, sl.lo + r.fields[0], sl.lo + r.fields[1])
                if isinstance(r, int):
                    if r >= n: raise Panic('index out of bounds')
                    return Ptr(Cell(sl.vec)).sub(sl.lo + r)
            raise Unsupported(f'index {sl!r}[{r!r}]')
        if trait in ('Fn', 'FnMut', 'FnOnce') and meth in ('call', 'call_mut', 'call_once'):
            return self.call_value(args[0], args[1].fields)
        if trait == 'Extend' and meth == 'extend':
            tgt = g(args[0]); src = args[1]
            for item in self.drain(src):
                if tgt.kind.endswith('Map'): self.map_insert(tgt, item.fields[0], item.fields[1])
                else: self.map_insert(tgt, item, None)
            return ()
        if trait == 'IntoIterator' and meth == 'into_iter': return self.into_iter(args[0], selfty)
        if trait in ('Iterator', 'DoubleEndedIterator'):
            r = self.iterator_method(meth, args, fname)
            if r is not NotImplemented: return r
        if trait == 'FromIterator' and meth == 'from_iter':
            return self.collect(args[0], selfty)
        if trait == 'Hash': return ()
        if trait == 'Write' and meth in ('write_fmt', 'write_str', 'write_char') and isinstance(gg(args[0]), RString):
            # fmt::Write for String: write!(s, ..) appends
            tgt = gg(args[0])
            if meth == 'write_fmt': tgt.chars.extend(self.render_args(args[1]))
            elif meth == 'write_str': tgt.chars.extend(gg(args[1]).chars)
            else: tgt.chars.append(gg(args[1]))
            return Agg('Result', 0, [()])
        if trait == 'Write' and meth == 'write_fmt' and isinstance(g(args[0]), Formatter):
            g(args[0]).out.extend(self.render_args(args[1])); return Agg('Result', 0, [()])
        # ----- local MIR functions
        loc = self.resolve_local(fname)
        if loc is not None: return self.run(loc, args)
        return self.std_call(fname, f, base, args)
    def map_insert(self, mp, key, val):
        e = self.map_find(mp, key)
        if e is None:
            mp.items.append([key, val]); return None
        old = e[1]; e[1] = val
        return (old,)
    def drain(self, src):
        """python list of the items an iterable value yields (by value)"""
        if isinstance(src, Ptr): src = src.get()
        if isinstance(src, RMap):
            order = self.iter_order(src)
            return [Agg('tuple', None, [k, v]) if src.kind.endswith('Map') else k for k, v in order]
        if isinstance(src, RVec): return list(src.items)
        if isinstance(src, Agg) and src.name == 'array': return list(src.fields)
        if isinstance(src, Slice): return list(src.vec.items[src.lo:src.hi])
        if isinstance(src, SeqIter):
            r = src.items[src.i:]; src.i = len(src.items); return r
        if isinstance(src, MapAdapter): return [self.call_value(src.f, [x]) for x in self.drain(src.inner)]
        if isinstance(src, SliceIter):
            r = [Ptr(Cell(src.sl.vec)).sub(src.sl.lo + i) for i in range(src.i, len(src.sl))]; src.i = len(src.sl); return r
        if isinstance(src, PeekChars):
            r = src.chars[src.pos:]; src.pos = len(src.chars); return r
        raise Unsupported(f'drain {src!r}')
    def into_iter(self, v, selfty=''):
        byref = isinstance(v, Ptr)
        x = v.get() if byref else v
        if isinstance(x, (SeqIter, SliceIter, PeekChars, MapAdapter)): return v if not byref else v
        if isinstance(x, RMap):
            order = self.iter_order(x)
            if byref:
                if x.kind.endswith('Map'):
                    return SeqIter([Agg('tuple', None, [Ptr(Cell(e)).sub(0), Ptr(Cell(e)).sub(1)]) for e in order])
                return SeqIter([Ptr(Cell(e)).sub(0) for e in order])
            if x.kind.endswith('Map'): return SeqIter([Agg('tuple', None, [e[0], e[1]]) for e in order])
            return SeqIter([e[0] for e in order])
        if isinstance(x, RVec):
            if byref: return SeqIter([Ptr(Cell(x)).sub(i) for i in range(len(x.items))])
            return SeqIter(list(x.items))
        if isinstance(x, Slice): return SeqIter([Ptr(Cell(x.vec)).sub(i) for i in range(x.lo, x.hi)])
        if isinstance(x, Agg) and x.name == 'Range': return SeqIter(list(range(x.fields[0], x.fields[1])))
        if isinstance(x, Agg) and x.name == 'array':
            if byref: return SeqIter([Ptr(Cell(x)).sub(i) for i in range(len(x.fields))])
            return SeqIter(list(x.fields))
        return v
    def collect(self, it, target):
        items = self.drain(it)
        t = target
        mt = re.search(r'collect::<(.*)>\s*$', t.strip())
        if mt:
            t = mt.group(1).strip(); head = re.sub(r'^(std|alloc|core)::(\w+::)*', '', t)
            if head.startswith(('Result<', 'Option<')):
                # collecting Results / Options: the first Err / None wins, otherwise the payloads are collected
                inner = head[head.index('<') + 1:]
                isres = head.startswith('Result<')
                out = []
                for x in items:
                    if (isres and x.variant == 1) or (not isres and x.variant == 0): return x
                    out.append(x.fields[0])
                return Agg('Result' if isres else 'Option', 0 if isres else 1, [self.collect(SeqIter(out), 'collect::<' + split_top(inner[:-1] if inner.endswith('>') else inner)[0] + '>')])
            if head.startswith('Vec<') or head.startswith('VecDeque<') or head.startswith('Box<['): return RVec(items)
            if head.startswith(('HashSet<', 'BTreeSet<')):
                mp = RMap('HashSet' if head.startswith('HashSet<') else 'BTreeSet')
                for x in items: self.map_insert(mp, x, None)
                return mp
            if head.startswith(('HashMap<', 'BTreeMap<')):
                mp = RMap('HashMap' if head.startswith('HashMap<') else 'BTreeMap')
                for x in items: self.map_insert(mp, x.fields[0], x.fields[1])
                return mp
            t = head
        if re.search(r'\bString\b', t) and not re.search(r'Vec<', t):
            out = []
            for x in items:
                if isinstance(x, (RString, RStr)): out.extend(x.chars)
                else: out.append(x)
            return RString(out)
        if 'HashSet' in t:
            mp = RMap('HashSet')
            for x in items: self.map_insert(mp, x, None)
            return mp
        if 'HashMap' in t or 'BTreeMap' in t:
            mp = RMap('HashMap' if 'HashMap' in t else 'BTreeMap')
            for x in items: self.map_insert(mp, x.fields[0], x.fields[1])
            return mp
        return RVec(items)
    def iterator_method(self, meth, args, fname):
        g = lambda x: x.get() if isinstance(x, Ptr) else x
        it = g(args[0])
        while isinstance(it, Ptr): it = it.get()
        if meth == 'by_ref': return args[0] if isinstance(args[0], Ptr) else Ptr(Cell(args[0]))
        if meth == 'peekable' and isinstance(it, PeekChars): return it
        if meth == 'next':
            if isinstance(it, PeekChars):
                it.peek_cell = None
                if it.pos >= len(it.chars): return Agg('Option', 0, [])
                c = it.chars[it.pos]; it.pos += 1
                return Agg('Option', 1, [c])
            if isinstance(it, SeqIter):
                if it.i >= len(it.items): return Agg('Option', 0, [])
                it.i += 1; return Agg('Option', 1, [it.items[it.i - 1]])
            if isinstance(it, SliceIter):
                if it.i >= len(it.sl): return Agg('Option', 0, [])
                it.i += 1; return Agg('Option', 1, [Ptr(Cell(it.sl.vec)).sub(it.sl.lo + it.i - 1)])
            if isinstance(it, MapAdapter):
                r = self.iterator_method('next', [Ptr(Cell(it.inner))], fname)
                if r.variant == 0: return r
                return Agg('Option', 1, [self.call_value(it.f, [r.fields[0]])])
            return NotImplemented
        if meth == 'rev' and isinstance(it, SeqIter): return SeqIter(list(reversed(it.items[it.i:])))
        if meth == 'map': return MapAdapter(it, args[1])
        if meth == 'copied' or meth == 'cloned': return MapAdapter(it, PyFn(lambda x: deep_clone(x.get() if isinstance(x, Ptr) else x)))
        if meth == 'position':
            if isinstance(it, SliceIter):
                sl = it.sl
                for i in range(it.i, len(sl)):
                    if self.truth(self.call_value(args[1], [Ptr(Cell(sl.vec)).sub(sl.lo + i)])): return Agg('Option', 1, [i])
                return Agg('Option', 0, [])
        if meth in ('any', 'all'):
            for x in self.drain(it):
                r = self.truth(self.call_value(args[1], [x]))
                if r and meth == 'any': return True
                if not r and meth == 'all': return False
            return meth == 'all'
        if meth == 'collect':
            return self.collect(it, fname)
        if meth == 'count': return len(self.drain(it))
        if meth == 'enumerate': return SeqIter([Agg('tuple', None, [i, x]) for i, x in enumerate(self.drain(it))])
        if meth == 'zip': return SeqIter([Agg('tuple', None, [x, y]) for x, y in zip(self.drain(it), self.drain(self.into_iter(args[1])))])
        if meth == 'chain': return SeqIter(self.drain(it) + self.drain(self.into_iter(args[1])))
        if meth == 'rev': return SeqIter(list(reversed(self.drain(it))))
        if meth == 'skip': return SeqIter(self.drain(it)[args[1]:])
        if meth == 'take': return SeqIter(self.drain(it)[:args[1]])
        if meth == 'step_by': return SeqIter(self.drain(it)[::args[1]])
        if meth == 'filter': return SeqIter([x for x in self.drain(it) if self.truth(self.call_value(args[1], [Ptr(Cell(x))]))])
        if meth == 'filter_map':
            out = []
            for x in self.drain(it):
                r = self.call_value(args[1], [x])
                if r.variant == 1: out.append(r.fields[0])
            return SeqIter(out)
        if meth == 'flat_map' or meth == 'flatten':
            out = []
            for x in self.drain(it): out.extend(self.drain(self.into_iter(self.call_value(args[1], [x]) if meth == 'flat_map' else x)))
            return SeqIter(out)
        if meth == 'find':
            for x in self.drain(it):
                if self.truth(self.call_value(args[1], [Ptr(Cell(x))])): return Agg('Option', 1, [x])
            return Agg('Option', 0, [])
        if meth == 'find_map':
            for x in self.drain(it):
                r = self.call_value(args[1], [x])
                if r.variant == 1: return r
            return Agg('Option', 0, [])
        if meth in ('position', 'rposition'):
            xs = self.drain(it); idx = range(len(xs)) if meth == 'position' else reversed(range(len(xs)))
            for i_ in idx:
                if self.truth(self.call_value(args[1], [xs[i_]])): return Agg('Option', 1, [i_])
            return Agg('Option', 0, [])
        if meth in ('take_while', 'map_while') and isinstance(it, (SeqIter, PeekChars)):
            # lazy on a position-based iterator (typically `iter.by_ref().take_while(..)`): the elements are consumed one by one,
            # INCLUDING the first one that fails the predicate; the underlying iterator keeps the rest
            out = []
            while True:
                if isinstance(it, SeqIter):
                    if it.i >= len(it.items): break
                    x = it.items[it.i]; it.i += 1
                else:
                    if it.pos >= len(it.chars): break
                    x = it.chars[it.pos]; it.pos += 1
                if meth == 'take_while':
                    if not self.truth(self.call_value(args[1], [Ptr(Cell(x))])): break
                    out.append(x)
                else:
                    r = self.call_value(args[1], [x])
                    if r.variant != 1: break
                    out.append(r.fields[0])
            return SeqIter(out)
        if meth in ('take_while', 'skip_while', 'map_while'):
            xs = self.drain(it); out = []; i_ = 0
            if meth == 'map_while':
                for x in xs:
                    r = self.call_value(args[1], [x])
                    if r.variant != 1: break
                    out.append(r.fields[0])
                return SeqIter(out)
            while i_ < len(xs) and self.truth(self.call_value(args[1], [Ptr(Cell(xs[i_]))])): i_ += 1
            return SeqIter(xs[:i_] if meth == 'take_while' else xs[i_:])
        if meth in ('copied', 'cloned'): return SeqIter([x.get() if isinstance(x, Ptr) else x for x in self.drain(it)])
        if meth == 'fold':
            acc = args[1]
            for x in self.drain(it): acc = self.call_value(args[2], [acc, x])
            return acc
        if meth == 'for_each':
            for x in self.drain(it): self.call_value(args[1], [x])
            return ()
        if meth in ('last', 'nth'):
            xs = self.drain(it); i = len(xs) - 1 if meth == 'last' else args[1]
            return Agg('Option', 1, [xs[i]]) if 0 <= i < len(xs) else Agg('Option', 0, [])
        if meth in ('max_by_key', 'min_by_key'):
            xs = self.drain(it)
            if not xs: return Agg('Option', 0, [])
            ks = [ckey(self.call_value(args[1], [Ptr(Cell(x))])) for x in xs]
            best = 0
            for i_ in range(1, len(xs)):
                if (meth == 'max_by_key' and ks[i_] >= ks[best]) or (meth == 'min_by_key' and ks[i_] < ks[best]): best = i_
            return Agg('Option', 1, [xs[best]])
        if meth == 'peekable' and not isinstance(it, PeekChars): return SeqIter(self.drain(it))
        if meth in ('max', 'min', 'sum'):
            xs = [x.get() if isinstance(x, Ptr) else x for x in self.drain(it)]
            if meth == 'sum': return sum(xs)
            if not xs: return Agg('Option', 0, [])
            return Agg('Option', 1, [max(xs) if meth == 'max' else min(xs)])
        return NotImplemented
    def std_call(self, fname, f, base, args):
        g = lambda x: x.get() if isinstance(x, Ptr) else x
        def gg(x):
            while isinstance(x, Ptr): x = x.get()
            return x
        e = base.endswith
        self.models_used.add(base.split('::')[-2] + '::' + base.split('::')[-1] if '::' in base else base)
        if e('Vec::new') or e('Vec::with_capacity'): return RVec()
        if e('Vec::push'): g(args[0]).items.append(args[1]); return ()
        if e('Vec::len'): return len(g(args[0]).items)
        if e('Vec::pop'):
            v = g(args[0])
            return Agg('Option', 1, [v.items.pop()]) if v.items else Agg('Option', 0, [])
        if e('String::new'): return RString([])
        if e('String::push'): g(args[0]).chars.append(args[1]); return ()
        if e('String::push_str'): g(args[0]).chars.extend(gg(args[1]).chars); return ()
        if e('String::as_str'): return RStr(g(args[0]).chars)
        if e('String::is_empty') or e('str::is_empty'): return len(gg(args[0]).chars) == 0
        if e('str::len') or e('String::len'): return len(gg(args[0]).chars)
        if e('str::chars'): return PeekChars(gg(args[0]).chars)
        if e('str::to_string') or e('str::to_owned') or e('String::from'): return RString(gg(args[0]).chars)
        if e('str::trim'):
            cs = list(gg(args[0]).chars)
            if any(not isinstance(c, int) for c in cs): raise Unsupported('trim on symbolic string')
            while cs and py_is_ws(cs[0]): cs.pop(0)
            while cs and py_is_ws(cs[-1]): cs.pop()
            return RStr(cs)
        if e('str::repeat'): return RString(list(gg(args[0]).chars) * args[1])
        if e('str::starts_with') or e('str::ends_with') or e('str::contains'):
            a = gg(args[0]); b = gg(args[1])
            if isinstance(b, int): b = RStr([b])
            if has_sym(a) or has_sym(b):
                # lengths are concrete, characters may be symbolic: decide by a solver query (forks)
                if not isinstance(b, (RString, RStr)): raise Unsupported('symbolic ' + base + ' with a non-string pattern')
                A_, B_ = list(a.chars), list(b.chars)
                if len(B_) > len(A_): return False
                def at(off):
                    r = self.equal(RStr(A_[off:off + len(B_)]), RStr(B_))
                    return z3.BoolVal(r) if isinstance(r, bool) else r
                offs = [0] if e('starts_with') else [len(A_) - len(B_)] if e('ends_with') else list(range(len(A_) - len(B_) + 1))
                return self.truth(z3.simplify(z3.Or(*[at(o_) for o_ in offs])))
            sa, sb = show(a.chars), show(b.chars)
            return sa.startswith(sb) if e('starts_with') else sa.endswith(sb) if e('ends_with') else sb in sa
        if e('str::eq_ignore_ascii_case'):
            A_, B_ = list(gg(args[0]).chars), list(gg(args[1]).chars)
            if len(A_) != len(B_): return False
            def low(c):
                if isinstance(c, int): return c + 32 if 65 <= c <= 90 else c
                return z3.If(z3.And(z3.UGE(c, 65), z3.ULE(c, 90)), c + 32, c)
            conj = []
            for x_, y_ in zip(A_, B_):
                lx, ly = low(x_), low(y_)
                if isinstance(lx, int) and isinstance(ly, int):
                    if lx != ly: return False
                else: conj.append((ly == lx) if isinstance(lx, int) else (lx == ly))
            return self.truth(z3.simplify(z3.And(*conj))) if conj else True
        if e('str::to_uppercase') or e('str::to_lowercase'):
            a = gg(args[0])
            if has_sym(a): raise Unsupported('symbolic ' + base)
            t = show(a.chars); return mkstr(t.upper() if e('to_uppercase') else t.lower())
        if e('String::clear'): g(args[0]).chars.clear(); return ()
        if e('String::pop'):
            v = g(args[0]); return Agg('Option', 1, [v.chars.pop()]) if v.chars else Agg('Option', 0, [])
        if e('String::insert'): g(args[0]).chars.insert(args[1], args[2]); return ()
        if e('String::truncate'): del g(args[0]).chars[args[1]:]; return ()
        if e('String::with_capacity'): return RString([])
        if e('str::char_indices'): return SeqIter([Agg('tuple', None, [i, c]) for i, c in enumerate(gg(args[0]).chars)])
        if e('Vec::insert'): g(args[0]).items.insert(args[1], args[2]); return ()
        if e('Vec::swap_remove'):
            v = g(args[0]); i_ = args[1]
            if not (0 <= i_ < len(v.items)): raise Panic('swap_remove index out of bounds')
            x = v.items[i_]; last = v.items.pop()
            if i_ < len(v.items): v.items[i_] = last
            return x
        if e('Vec::remove'):
            v = g(args[0])
            if args[1] >= len(v.items): raise Panic('removal index out of bounds')
            return v.items.pop(args[1])
        if e('Vec::clear'): g(args[0]).items.clear(); return ()
        if e('Vec::truncate'): del g(args[0]).items[args[1]:]; return ()
        if e('Vec::extend_from_slice'): g(args[0]).items.extend(deep_clone(x) for x in self.drain(gg(args[1]))); return ()
        if e('Vec::append'):
            src = g(args[1]); g(args[0]).items.extend(src.items); src.items.clear(); return ()
        if e('Vec::reverse') or e('slice::reverse'): gg(args[0]).items.reverse(); return ()
        if e('slice::first') or e('slice::last'):
            sl = gg(args[0]); sl = sl if isinstance(sl, Slice) else Slice(sl, 0, len(sl.items))
            if len(sl) == 0: return Agg('Option', 0, [])
            return Agg('Option', 1, [Ptr(Cell(sl.vec)).sub(sl.lo if e('first') else sl.hi - 1)])
        if e('slice::contains') or e('Vec::contains'):
            sl = gg(args[0]); items = sl.items if isinstance(sl, RVec) else sl.vec.items[sl.lo:sl.hi]
            for x in items:
                if self.truth(self.equal(x, args[1])): return True
            return False
        if e('slice::split_at'):
            sl = gg(args[0]); sl = sl if isinstance(sl, Slice) else Slice(sl, 0, len(sl.items))
            if args[1] > len(sl): raise Panic('split_at out of bounds')
            return Agg('tuple', None, [Slice(sl.vec, sl.lo, sl.lo + args[1]), Slice(sl.vec, sl.lo + args[1], sl.hi)])
        if e('slice::split_first') or e('slice::split_last'):
            sl = gg(args[0]); sl = sl if isinstance(sl, Slice) else Slice(sl, 0, len(sl.items))
            if len(sl) == 0: return Agg('Option', 0, [])
            if e('split_first'): return Agg('Option', 1, [Agg('tuple', None, [Ptr(Cell(sl.vec)).sub(sl.lo), Slice(sl.vec, sl.lo + 1, sl.hi)])])
            return Agg('Option', 1, [Agg('tuple', None, [Ptr(Cell(sl.vec)).sub(sl.hi - 1), Slice(sl.vec, sl.lo, sl.hi - 1)])])
        if e('Option::unwrap_or'): return args[0].fields[0] if args[0].variant == 1 else args[1]
        if e('Option::unwrap_or_default'):
            if args[0].variant == 1: return args[0].fields[0]
            mt = re.search(r'Option::<(.+)>::unwrap_or_default', fname)
            ty = mt.group(1).strip() if mt else ''
            if ty in ('String', 'std::string::String', 'alloc::string::String'): return RString([])
            if ty in ('usize', 'u8', 'u16', 'u32', 'u64', 'isize', 'i8', 'i16', 'i32', 'i64'): return 0
            if ty == 'bool': return False
            if ty.startswith(('Vec<', 'std::vec::Vec<')): return RVec([])
            if ty.startswith(('HashMap<', 'std::collections::HashMap<')): return RMap('HashMap')
            if ty.startswith(('HashSet<', 'std::collections::HashSet<')): return RMap('HashSet')
            raise Unsupported('unwrap_or_default on None of type ' + ty)
        if e('Option::and_then'): return self.call_value(args[1], [args[0].fields[0]]) if args[0].variant == 1 else args[0]
        if e('Option::is_some_and'): return args[0].variant == 1 and self.truth(self.call_value(args[1], [args[0].fields[0]]))
        if e('Option::is_none_or'): return args[0].variant == 0 or self.truth(self.call_value(args[1], [args[0].fields[0]]))
        if e('Option::map_or'): return self.call_value(args[2], [args[0].fields[0]]) if args[0].variant == 1 else args[1]
        if e('Option::or'): return args[0] if args[0].variant == 1 else args[1]
        if e('Option::or_else'): return args[0] if args[0].variant == 1 else self.call_value(args[1], [])
        if e('Option::xor'): return args[0] if args[0].variant == 1 and args[1].variant == 0 else args[1] if args[0].variant == 0 and args[1].variant == 1 else Agg('Option', 0, [])
        if e('Option::and'): return args[1] if args[0].variant == 1 else args[0]
        if e('Option::zip'): return Agg('Option', 1, [Agg('tuple', None, [args[0].fields[0], args[1].fields[0]])]) if args[0].variant == 1 and args[1].variant == 1 else Agg('Option', 0, [])
        if e('Option::ok_or_else'): return Agg('Result', 0, [args[0].fields[0]]) if args[0].variant == 1 else Agg('Result', 1, [self.call_value(args[1], [])])
        if e('Option::map_or_else'): return self.call_value(args[2], [args[0].fields[0]]) if args[0].variant == 1 else self.call_value(args[1], [])
        if e('Option::get_or_insert_with') or e('Option::insert'):
            p = args[0]
            if e('insert') or p.get().variant == 0: p.set(Agg('Option', 1, [args[1] if e('insert') else self.call_value(args[1], [])]))
            return p.sub(0)
        if e('Option::take'):
            p = args[0]; old = p.get(); p.set(Agg('Option', 0, [])); return old
        if e('Option::as_deref') or e('Option::as_mut'):
            v = args[0]
            if g(v).variant == 0: return Agg('Option', 0, [])
            inner = g(v).fields[0]
            return Agg('Option', 1, [RStr(inner.chars) if isinstance(inner, RString) else (v.sub(0) if isinstance(v, Ptr) else Ptr(Cell(inner)))])
        if e('Option::filter'): return args[0] if args[0].variant == 1 and self.truth(self.call_value(args[1], [Ptr(Cell(args[0].fields[0]))])) else Agg('Option', 0, [])
        if e('Result::ok'): return Agg('Option', 1, [args[0].fields[0]]) if args[0].variant == 0 else Agg('Option', 0, [])
        if e('Result::map_err'): return args[0] if args[0].variant == 0 else Agg('Result', 1, [self.call_value(args[1], [args[0].fields[0]])])
        if e('Result::map'): return Agg('Result', 0, [self.call_value(args[1], [args[0].fields[0]])]) if args[0].variant == 0 else args[0]
        if e('Result::unwrap_or'): return args[0].fields[0] if args[0].variant == 0 else args[1]
        if e('Result::unwrap_or_else'): return args[0].fields[0] if args[0].variant == 0 else self.call_value(args[1], [args[0].fields[0]])
        if e('Result::and_then'): return self.call_value(args[1], [args[0].fields[0]]) if args[0].variant == 0 else args[0]
        if e('Peekable::peek'):
            it = gg(args[0])
            if it.pos >= len(it.chars): return Agg('Option', 0, [])
            it.peek_cell = Cell(it.chars[it.pos])
            return Agg('Option', 1, [Ptr(it.peek_cell)])
        if e('Peekable::next_if') or e('Peekable::next_if_eq'):
            it = gg(args[0])
            if it.pos >= len(it.chars): return Agg('Option', 0, [])
            c = it.chars[it.pos]
            if e('Peekable::next_if_eq'):
                want = gg(args[1])
                ok = self.truth(self.equal(RStr([c]), RStr([want]))) if not (isinstance(c, int) and isinstance(want, int)) else c == want
            else: ok = self.truth(self.call_value(args[1], [Ptr(Cell(c))]))
            if not ok: return Agg('Option', 0, [])
            it.pos += 1
            return Agg('Option', 1, [c])
        if e('::is_whitespace'): return self.char_pred('ws', args[0])
        if e('::is_alphanumeric'): return self.char_pred('alnum', args[0])
        for nm_, lo_hi in (('is_ascii_digit', [(48, 57)]), ('is_ascii_uppercase', [(65, 90)]), ('is_ascii_lowercase', [(97, 122)]), ('is_ascii_alphabetic', [(65, 90), (97, 122)]),
                           ('is_ascii_alphanumeric', [(48, 57), (65, 90), (97, 122)]), ('is_ascii', [(0, 127)]), ('is_ascii_whitespace', [(9, 10), (12, 13), (32, 32)]), ('is_ascii_punctuation', [(33, 47), (58, 64), (91, 96), (123, 126)])):
            if e('::' + nm_):
                c = gg(args[0])
                if isinstance(c, int): return any(lo <= c <= hi for lo, hi in lo_hi)
                return z3.Or([z3.And(z3.UGE(c, lo), z3.ULE(c, hi)) for lo, hi in lo_hi])
        if e('::is_alphabetic') or e('::is_numeric') or e('::is_uppercase') or e('::is_lowercase') or e('::is_digit'):
            c = gg(args[0])
            if not isinstance(c, int): raise Unsupported('symbolic ' + base.split('::')[-1])
            ch = chr(c); k_ = base.split('::')[-1]
            return {'is_alphabetic': ch.isalpha(), 'is_numeric': ch.isnumeric(), 'is_uppercase': ch.isupper(), 'is_lowercase': ch.islower(), 'is_digit': ch.isdigit()}[k_]
        if e('::to_ascii_uppercase') or e('::to_ascii_lowercase'):
            c = gg(args[0])
            if isinstance(c, int): return ord(chr(c).upper() if e('uppercase') else chr(c).lower()) if c < 128 else c
            raise Unsupported('symbolic case conversion')
        if e('str::trim_start') or e('str::trim_end'):
            cs = list(gg(args[0]).chars)
            if any(not isinstance(c, int) for c in cs): raise Unsupported('trim on symbolic string')
            if e('trim_start'):
                while cs and py_is_ws(cs[0]): cs.pop(0)
            else:
                while cs and py_is_ws(cs[-1]): cs.pop()
            return RStr(cs)
        if e('str::strip_prefix') or e('str::strip_suffix') or e('str::find') or e('str::split') or e('str::replace') or e('str::lines') or e('str::split_whitespace'):
            a = gg(args[0])
            if has_sym(a) or (len(args) > 1 and has_sym(gg(args[1]))): raise Unsupported('symbolic ' + base)
            sa = show(a.chars)
            sb = None
            if len(args) > 1:
                b_ = gg(args[1]); sb = chr(b_) if isinstance(b_, int) else show(b_.chars)
            if e('strip_prefix'): return Agg('Option', 1, [mkref(sa[len(sb):])]) if sa.startswith(sb) else Agg('Option', 0, [])
            if e('strip_suffix'): return Agg('Option', 1, [mkref(sa[:-len(sb)] if sb else sa)]) if sa.endswith(sb) else Agg('Option', 0, [])
            if e('find'):
                i_ = sa.find(sb); return Agg('Option', 1, [len(sa[:i_].encode())]) if i_ >= 0 else Agg('Option', 0, [])
            if e('str::split'): return SeqIter([mkref(x) for x in sa.split(sb)])
            if e('str::lines'): return SeqIter([mkref(x) for x in sa.splitlines()])
            if e('str::split_whitespace'): return SeqIter([mkref(x) for x in sa.split()])
            if e('replace'):
                c_ = gg(args[2]); return mkstr(sa.replace(sb, chr(c_) if isinstance(c_, int) else show(c_.chars)))
        if e('slice::sort') or e('slice::sort_unstable') or e('Vec::sort') or e('Vec::dedup') or e('slice::sort_by_key') or e('slice::sort_by'):
            v = gg(args[0]); items = v.items if isinstance(v, RVec) else None
            if items is None: raise Unsupported('sort on a slice view')
            if e('dedup'):
                out_ = []
                for x in items:
                    if not out_ or self.truth(self.equal(out_[-1], x)) is False: out_.append(x)
                items[:] = out_; return ()
            import functools
            if e('sort_by_key'): items.sort(key=lambda x: ckey(self.call_value(args[1], [Ptr(Cell(x))])))
            elif e('sort_by'): items.sort(key=functools.cmp_to_key(lambda x, y: self.call_value(args[1], [Ptr(Cell(x)), Ptr(Cell(y))]).variant - 1))
            else: items.sort(key=ckey)
            return ()
        if e('slice::windows') or e('slice::chunks'):
            sl = gg(args[0]); sl = sl if isinstance(sl, Slice) else Slice(sl, 0, len(sl.items)); n_ = args[1]
            if e('windows'): return SeqIter([Slice(sl.vec, sl.lo + i, sl.lo + i + n_) for i in range(0, len(sl) - n_ + 1)])
            return SeqIter([Slice(sl.vec, sl.lo + i, min(sl.lo + i + n_, sl.hi)) for i in range(0, len(sl), n_)])
        if e('slice::iter_mut') or e('Vec::iter_mut'):
            v = gg(args[0]); v = v if isinstance(v, Slice) else Slice(v, 0, len(v.items)); return SliceIter(v)
        if e('Vec::retain'):
            v = g(args[0]); v.items[:] = [x for x in v.items if self.truth(self.call_value(args[1], [Ptr(Cell(x))]))]; return ()
        if e('Vec::drain') or e('Vec::split_off'):
            v = g(args[0])
            if e('split_off'):
                tail = v.items[args[1]:]; del v.items[args[1]:]; return RVec(tail)
            r_ = args[1]; lo = r_.fields[0] if r_.name in ('Range', 'RangeFrom') else 0
            hi = r_.fields[1] if r_.name == 'Range' else (r_.fields[0] if r_.name == 'RangeTo' else len(v.items))
            out_ = v.items[lo:hi]; del v.items[lo:hi]; return SeqIter(out_)
        if e('Vec::first') or e('Vec::last'):
            v = g(args[0])
            if not v.items: return Agg('Option', 0, [])
            return Agg('Option', 1, [Ptr(Cell(v)).sub(0 if e('first') else len(v.items) - 1)])
        if e('Vec::from') or e('slice::into_vec'):
            src = gg(args[0])
            if isinstance(src, Agg) and src.name == 'array': return RVec(src.fields)
            if isinstance(src, Cell): src = src.v
            return RVec(list(src.fields) if isinstance(src, Agg) else [deep_clone(x) for x in self.drain(src)])
        if e('slice::iter') or e('Vec::iter') or e('::iter') and isinstance(gg(args[0]), (Slice, RVec)):
            v = gg(args[0])
            return SliceIter(v if isinstance(v, Slice) else Slice(v, 0, len(v.items)))
        if e('slice::is_empty') or e('Vec::is_empty'):
            v = gg(args[0]); return (len(v.items) if isinstance(v, RVec) else len(v)) == 0
        if e('slice::len'):
            v = gg(args[0]); return len(v.items) if isinstance(v, RVec) else len(v)
        if e('slice::get') or (e('::get') and isinstance(gg(args[0]), (Slice, RVec))):
            sl = gg(args[0]); sl = sl if isinstance(sl, Slice) else Slice(sl, 0, len(sl.items))
            return Agg('Option', 1, [Ptr(Cell(sl.vec)).sub(sl.lo + args[1])]) if args[1] < len(sl) else Agg('Option', 0, [])
        if e('slice::to_vec'):
            sl = gg(args[0]); return RVec([deep_clone(x) for x in sl.vec.items[sl.lo:sl.hi]])
        if e('Box::new'): return Cell(args[0])
        if e('Box::new_uninit'): return Cell(UNINIT)
        if e('box_assume_init_into_vec_unsafe'):
            c = args[0]; c = c.cell if isinstance(c, BoxRaw) else c
            return RVec(c.v.fields)
        if e('Option::is_some'): return gg(args[0]).variant == 1
        if e('Option::is_none'): return gg(args[0]).variant == 0
        if e('Option::unwrap') or e('Option::expect'):
            if args[0].variant == 0: raise Panic('called `Option::unwrap()` on a `None` value')
            return args[0].fields[0]
        if e('Option::ok_or'):
            return Agg('Result', 0, [args[0].fields[0]]) if args[0].variant == 1 else Agg('Result', 1, [args[1]])
        if e('Option::unwrap_or_else'):
            return args[0].fields[0] if args[0].variant == 1 else self.call_value(args[1], [])
        if e('Option::as_ref'):
            v = args[0]
            if g(v).variant == 0: return Agg('Option', 0, [])
            return Agg('Option', 1, [v.sub(0) if isinstance(v, Ptr) else Ptr(Cell(v)).sub(0)])
        if e('Option::map'):
            return Agg('Option', 1, [self.call_value(args[1], [args[0].fields[0]])]) if args[0].variant == 1 else args[0]
        if e('Option::cloned') or e('Option::copied'):
            return Agg('Option', 1, [deep_clone(gg(args[0].fields[0]))]) if args[0].variant == 1 else args[0]
        if e('Result::unwrap') or e('Result::expect'):
            if args[0].variant == 1: raise Panic('called `Result::unwrap()` on an `Err` value')
            return args[0].fields[0]
        if e('Result::is_ok'): return gg(args[0]).variant == 0
        if e('Result::is_err'): return gg(args[0]).variant == 1
        if e('cmp::max'): return max(args[0], args[1])
        if e('cmp::min'): return min(args[0], args[1])
        if e('must_use'): return args[0]
        if e('Argument::new_display'): return FmtArg(args[0], 'display', fname)
        if e('Argument::new_debug'): return FmtArg(args[0], 'debug', fname)
        if e('Arguments::new'): return FmtArgs(args[0][1], gg(args[1]).fields)
        if e('Arguments::from_str') or e('Arguments::new_const'): return FmtArgs(None, [gg(args[0])])
        if base == 'format' or e('fmt::format'): return RString(self.render_args(args[0]))
        if e('Formatter::write_fmt'): gg(args[0]).out.extend(self.render_args(args[1])); return Agg('Result', 0, [()])
        if e('Formatter::write_str'): gg(args[0]).out.extend(gg(args[1]).chars); return Agg('Result', 0, [()])
        m2 = re.match(r'.*Formatter::debug_tuple_field(\d)_finish$', base)
        if m2: return self.debug_finish(gg(args[0]), gg(args[1]), args[2:])
        m2 = re.match(r'.*Formatter::debug_struct_field(\d)_finish$', base)
        if m2: return self.debug_finish(gg(args[0]), gg(args[1]), args[3::2], [gg(x) for x in args[2::2]])
        if e('io::_print') or e('io::_eprint'): return ()
        if e('mem::drop') or e('mem::forget'): return ()
        if e('mem::replace'):
            p = args[0]; old = p.get(); p.set(args[1]); return old
        if e('mem::take'):
            p = args[0]; old = p.get()
            p.set(RString([]) if isinstance(old, RString) else RVec() if isinstance(old, RVec) else RMap(old.kind)); return old
        # ---- maps / sets / heaps
        mk = re.match(r'^(?:.*::)?(HashMap|BTreeMap|HashSet|BTreeSet|BinaryHeap)::(\w+)$', base)
        if mk: return self.container_call(mk.group(1), mk.group(2), args)
        mk = re.match(r'^(?:.*::)?(?:hash_map::|btree_map::|map::)?(?:entry::)?Entry::(\w+)$', base)
        if mk:
            ent = args[0]; mp, key = ent.fields
            name = mk.group(1)
            if name in ('or_insert', 'or_insert_with', 'or_default'):
                x = self.map_find(mp, key)
                if x is None:
                    val = args[1] if name == 'or_insert' else self.call_value(args[1], []) if name == 'or_insert_with' else 0
                    mp.items.append([key, val]); x = mp.items[-1]
                return Ptr(Cell(x)).sub(1)
            if name == 'and_modify':
                x = self.map_find(mp, key)
                if x is not None: self.call_value(args[1], [Ptr(Cell(x)).sub(1)])
                return ent
            raise Unsupported('Entry::' + name)
        if 'panic' in base or e('unwrap_failed') or e('expect_failed'): raise Panic('explicit panic: ' + base)
        raise Unsupported('call ' + fname)
    def container_call(self, kind, name, args):
        g = lambda x: x.get() if isinstance(x, Ptr) else x
        if name in ('new', 'with_capacity', 'default'): return RHeap() if kind == 'BinaryHeap' else RMap(kind)
        mp = g(args[0])
        while isinstance(mp, Ptr): mp = mp.get()
        if kind == 'BinaryHeap':
            if name == 'push': mp.items.append(args[1]); return ()
            if name == 'pop':
                if not mp.items: return Agg('Option', 0, [])
                # maximal elements w.r.t. the (real) Ord impl; ties are a nondeterministic choice
                best = [0]
                for i in range(1, len(mp.items)):
                    c = self.call('<NodeWithDomains<\'_> as Ord>::cmp', [Ptr(Cell(mp.items[i])), Ptr(Cell(mp.items[best[0]]))]) if isinstance(mp.items[i], Agg) and mp.items[i].name == 'NodeWithDomains' else Agg('Ordering', self.compare(mp.items[i], mp.items[best[0]]) + 1, [])
                    if c.variant == 2: best = [i]
                    elif c.variant == 1: best.append(i)
                if self.order_mode == 'global': j = best[{0: 0, 1: -1, 2: len(best) // 2}[self.global_policy()]]
                elif len(best) > self.max_perm: self.order_skipped += 1; j = best[0]
                else: j = best[self.ctx.choose(len(best), 'heap-tie')]
                return Agg('Option', 1, [mp.items.pop(j)])
            if name == 'len': return len(mp.items)
            if name == 'is_empty': return not mp.items
            raise Unsupported('BinaryHeap::' + name)
        isset = kind.endswith('Set')
        if name in ('contains_key', 'contains'): return self.map_find(mp, args[1]) is not None
        if name in ('get', 'get_mut'):
            e = self.map_find(mp, args[1])
            if e is None: return Agg('Option', 0, [])
            return Agg('Option', 1, [Ptr(Cell(e)).sub(0 if isset else 1)])
        if name == 'insert':
            if isset: return self.map_insert(mp, args[1], None) is None
            old = self.map_insert(mp, args[1], args[2])
            return Agg('Option', 0, []) if old is None else Agg('Option', 1, [old[0]])
        if name == 'remove':
            e = self.map_find(mp, args[1])
            if e is None: return False if isset else Agg('Option', 0, [])
            mp.items.remove(e); return True if isset else Agg('Option', 1, [e[1]])
        if name in ('iter', 'iter_mut'): return self.into_iter(args[0] if isinstance(args[0], Ptr) else Ptr(Cell(mp)))
        if name == 'keys': return SeqIter([Ptr(Cell(e)).sub(0) for e in self.iter_order(mp)])
        if name in ('values', 'values_mut'): return SeqIter([Ptr(Cell(e)).sub(1) for e in self.iter_order(mp)])
        if name == 'is_empty': return len(mp.items) == 0
        if name == 'len': return len(mp.items)
        if name == 'clear': mp.items.clear(); return ()
        if name == 'entry': return Agg('MapEntry', None, [mp, args[1]])
        if name in ('get_or_insert_with',): raise Unsupported(kind + '::' + name)
        if name == 'extend':
            for item in self.drain(args[1]):
                if isset: self.map_insert(mp, item, None)
                else: self.map_insert(mp, item.fields[0], item.fields[1])
            return ()
        if name in ('first', 'last', 'first_key_value', 'last_key_value') and kind.startswith('BTree'):
            order = self.iter_order(mp)
            if not order: return Agg('Option', 0, [])
            e = order[0 if name.startswith('first') else -1]
            return Agg('Option', 1, [Ptr(Cell(e)).sub(0) if isset else Agg('tuple', None, [Ptr(Cell(e)).sub(0), Ptr(Cell(e)).sub(1)])])
        if name == 'retain':
            keep = []
            for e in list(mp.items):
                a = [Ptr(Cell(e)).sub(0)] if isset else [Ptr(Cell(e)).sub(0), Ptr(Cell(e)).sub(1)]
                if self.truth(self.call_value(args[1], a)): keep.append(e)
            mp.items[:] = keep; return ()
        if name == 'from':
            src = args[0]
            out = RMap(kind)
            for x in (src.fields if isinstance(src, Agg) else self.drain(src)):
                if isset: self.map_insert(out, x, None)
                else: self.map_insert(out, x.fields[0], x.fields[1])
            return out
        raise Unsupported(f'{kind}::{name}')
    def char_pred(self, kind, c):
        if isinstance(c, Ptr): c = c.get()
        if isinstance(c, int): return py_is_ws(c) if kind == 'ws' else py_is_alnum(c)
        key = (kind, c.get_id())
        hit = self.cp_cache.get(key)
        if hit is not None: return hit[0]
        r = self._char_pred(kind, c); self.cp_cache[key] = (r, c)
        return r
    def _char_pred(self, kind, c):
        ws = z3.Or([c == x for x in WS_ASCII] + [c == r[0] for r in REPS if r[1]])
        al = z3.Or([z3.And(z3.UGE(c, 48), z3.ULE(c, 57)), z3.And(z3.UGE(c, 65), z3.ULE(c, 90)), z3.And(z3.UGE(c, 97), z3.ULE(c, 122))]
                   + [c == r[0] for r in REPS if r[2]])
        return ws if kind == 'ws' else al

INT_T = {'u8': (8, False), 'u16': (16, False), 'u32': (32, False), 'u64': (64, False), 'usize': (64, False), 'u128': (128, False),
         'i8': (8, True), 'i16': (16, True), 'i32': (32, True), 'i64': (64, True), 'isize': (64, True), 'i128': (128, True)}

def split_call(callexpr):
    depth = 0
    for idx in range(len(callexpr) - 1, -1, -1):
        ch = callexpr[idx]
        if ch == ')': depth += 1
        elif ch == '(':
            depth -= 1
            if depth == 0: break
    argstr = callexpr[idx + 1:-1]
    return callexpr[:idx], (split_top(argstr) if argstr.strip() else [])

def decode_utf8(bs):
    out, i = [], 0
    bs = list(bs)
    try: return [ord(c) for c in bytes(bs).decode('utf-8')]
    except Exception: return bs

# =============================================================== exploration driver
class PathResult:
    __slots__ = ('outcome', 'value', 'decisions', 'ctx', 'extra')
    def __init__(self, outcome, value, decisions, ctx, extra=None):
        self.outcome, self.value, self.decisions, self.ctx, self.extra = outcome, value, decisions, ctx, extra

def explore(scenario, max_paths=200000, prefix0=(), on_path=None, timeout_ms=20000):
    """Run `scenario(ctx)` for every decision prefix.  scenario returns any value (or raises Panic).
    Yields PathResult; Unsupported propagates (an inconclusive run must not look like a pass)."""
    work = [list(prefix0)]
    n = 0
    while work:
        prefix = work.pop()
        ctx = PathCtx(prefix, timeout_ms)
        try:
            v = scenario(ctx); out = 'ok'
        except Panic as e:
            v = str(e); out = 'panic'
        except Infeasible:
            work.extend(ctx.pending); continue
        work.extend(ctx.pending)
        n += 1
        yield PathResult(out, v, list(ctx.taken), ctx)
        if n >= max_paths: raise Unsupported(f'path budget {max_paths} exhausted')
