"""MIR text (rustc -Zunpretty=mir) -> function table, plus source facts read from the same tree."""
import re, os

class Fn:
    __slots__ = ('name', 'header', 'blocks', 'cleanup', 'nargs', 'ltypes', 'span', 'nlocals')
    def __init__(self, name, header):
        self.name, self.header, self.blocks, self.cleanup, self.nargs = name, header, {}, set(), 0
        self.ltypes = {}; self.span = None; self.nlocals = 0

def find_args_open(hdr):
    depth = 0
    for i, ch in enumerate(hdr):
        if ch == '<': depth += 1
        elif ch == '>' and hdr[i-1] != '-': depth -= 1
        elif ch == '(' and depth == 0 and (hdr[i+1:i+5] == '_1: ' or hdr[i+1] == ')'): return i
    raise ValueError(hdr)

def split_top(s, sep=','):
    """split at top-level separators (respects (), [], {}, <>, string and char literals)"""
    out, depth, cur, i, instr = [], 0, [], 0, False
    n = len(s)
    while i < n:
        ch = s[i]
        if instr:
            cur.append(ch)
            if ch == '\\': cur.append(s[i+1]); i += 1
            elif ch == '"': instr = False
        elif ch == '"': instr = True; cur.append(ch)
        elif ch == "'" and i + 2 < n and (s[i+2] == "'" or s[i+1] == '\\'):
            j = s.index("'", i + 2 if s[i+1] != '\\' else i + 3); cur.append(s[i:j+1]); i = j
        elif ch in '([{': depth += 1; cur.append(ch)
        elif ch in ')]}': depth -= 1; cur.append(ch)
        elif ch == '<' and not (i + 1 < n and s[i+1] in ' ='): depth += 1; cur.append(ch)
        elif ch == '>' and i > 0 and s[i-1] not in '-=' and depth > 0 and s[i-1] != ' ': depth -= 1; cur.append(ch)
        elif ch == sep and depth == 0: out.append(''.join(cur).strip()); cur = []
        else: cur.append(ch)
        i += 1
    t = ''.join(cur).strip()
    if t: out.append(t)
    return out

def parse_mir(text):
    fns, consts = {}, {}
    cur = None; bb = None
    for line in text.split('\n'):
        if line.startswith('fn ') and line.endswith('{'):
            hdr = line[3:-1]
            i = find_args_open(hdr)
            name = hdr[:i]
            cur = Fn(name, hdr)
            depth = 0; j = i
            while True:
                if hdr[j] == '(': depth += 1
                elif hdr[j] == ')':
                    depth -= 1
                    if depth == 0: break
                j += 1
            for a in split_top(hdr[i+1:j]):
                m = re.match(r'^_(\d+): (.*)$', a)
                if m: cur.ltypes[int(m.group(1))] = m.group(2); cur.nargs += 1
            m = re.search(r'\{closure@([^}]*)\}', hdr[i:])
            if '{closure#' in name and m: cur.span = m.group(1)
            fns[name] = cur
            continue
        m = re.match(r'^const (.+?)::promoted\[(\d+)\]: .* = \{$', line)
        if m:
            cur = Fn(f'{m.group(1)}::promoted[{m.group(2)}]', line); consts[cur.name] = cur; continue
        if cur is None: continue
        if line == '}': cur = None; continue
        m = re.match(r'^\s+let (?:mut )?_(\d+): (.*);$', line)
        if m and bb is None:
            cur.ltypes[int(m.group(1))] = m.group(2); continue
        m = re.match(r'^    (bb\d+)( \(cleanup\))?: \{$', line)
        if m:
            bb = m.group(1); cur.blocks[bb] = []
            if m.group(2): cur.cleanup.add(bb)
            continue
        if line == '    }': bb = None; continue
        if bb and line.startswith('        '): cur.blocks[bb].append(line.strip())
    for f in list(fns.values()) + list(consts.values()):
        n = max(list(f.ltypes) + [0])
        f.nlocals = n
    return fns, consts

def load_source_facts(repo):
    """enum variant orders, struct field orders, source lines (for `<impl at file:l:c>` resolution)"""
    enums, structs, files = {}, {}, {}
    for root, _, fs in os.walk(os.path.join(repo, 'src')):
        for f in fs:
            if not f.endswith('.rs'): continue
            p = os.path.join(root, f); rel = os.path.relpath(p, repo)
            txt = open(p).read(); files[rel] = txt.split('\n')
            for m in re.finditer(r'\benum (\w+)(?:<[^>]*>)?\s*\{(.*?)\n\}', txt, re.S):
                body = re.sub(r'//[^\n]*', '', m.group(2))
                vs, depth, cur = [], 0, ''
                for ch in body:
                    if ch in '(<{[': depth += 1
                    if ch in ')>}]': depth -= 1
                    if ch == ',' and depth == 0: vs.append(cur); cur = ''
                    else: cur += ch
                vs.append(cur)
                names = [re.match(r'\s*(\w+)', v).group(1) for v in vs if re.match(r'\s*(\w+)', v)]
                enums[m.group(1)] = names
            for m in re.finditer(r'\bstruct (\w+)(?:<[^>]*>)?\s*\{(.*?)\n\}', txt, re.S):
                body = re.sub(r'//[^\n]*', '', m.group(2))
                structs[m.group(1)] = re.findall(r'(?:pub(?:\([^)]*\))? )?(\w+)\s*:', body)
    enums['Option'] = ['None', 'Some']; enums['Result'] = ['Ok', 'Err']
    enums['ControlFlow'] = ['Continue', 'Break']; enums['Ordering'] = ['Less', 'Equal', 'Greater']
    return enums, structs, files

def strip_generics(s):
    """remove ::<...> turbofish groups (balanced)"""
    if '::<' not in s: return s
    out, i = [], 0
    while i < len(s):
        if s.startswith('::<', i):
            depth, j = 0, i + 2
            while True:
                if s[j] == '<': depth += 1
                elif s[j] == '>' and s[j-1] != '-':
                    depth -= 1
                    if depth == 0: break
                j += 1
            i = j + 1
        else: out.append(s[i]); i += 1
    return ''.join(out)

def unescape(s):
    if '\\' not in s: return s
    out, i = [], 0
    while i < len(s):
        if s[i] == '\\':
            c = s[i+1]
            if c == 'x': out.append(chr(int(s[i+2:i+4], 16))); i += 4
            elif c == 'u':
                j = s.index('}', i); out.append(chr(int(s[i+3:j], 16))); i = j + 1
            else: out.append({'n': '\n', 't': '\t', 'r': '\r', '0': '\0', '\\': '\\', '"': '"', "'": "'"}[c]); i += 2
        else: out.append(s[i]); i += 1
    return ''.join(out)

def unescape_bytes(s):
    out, i = [], 0
    while i < len(s):
        if s[i] == '\\':
            if s[i+1] == 'x': out.append(int(s[i+2:i+4], 16)); i += 4
            else: out.append({'n': 10, 't': 9, 'r': 13, '0': 0, '\\': 92, '"': 34, "'": 39}[s[i+1]]); i += 2
        else:
            b = s[i].encode('utf-8'); out.extend(b); i += 1
    return out
