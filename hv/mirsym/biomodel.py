"""Bit-vector model of the documented contract of the biodivine libraries (trusted base of E-MIR, DESIGN.md 3.4).

n network variables, k auxiliary copies (HCTL variable sets), c explicit colour bits.
A Bdd / GraphColoredVertices is a z3 bit-vector of width 2^m, m = n(1+k)+c: one bit per valuation.
Bit position of a valuation: state bit of variable i at pos(i,0), copy j of variable i at pos(i,j+1), colour bits on top.
"""
import re, z3
from .interp import (Ptr, Cell, Agg, RString, RStr, RVec, Slice, SeqIter, Opaque, Panic, Unsupported, show, FnItem, Closure, PyFn)
from ..oracle import sem as S

class Model:
    def __init__(self, n, k, c=0, names=None, prefix='', unit_colours=None, T=None):
        self.n, self.k, self.c = n, k, c
        self.m = n * (1 + k) + c; self.W = 1 << self.m
        self.names = names or [f'v{i}' for i in range(n)]
        self.NS = 1 << (n + c)                         # (colour, state) pairs
        self.T = T or [z3.BitVec(f'{prefix}T{i}', self.NS) for i in range(n)]   # T[i][(col<<n)|s] = var i can update in s under col
        self.zero = z3.BitVecVal(0, self.W)
        self.full = z3.BitVecVal((1 << self.W) - 1, self.W)
        self._masks = {}
        # valid colours: symbolic mask over 2^c colours (bit col = colour col is valid); default all valid
        if unit_colours is None: self.U = z3.BitVecVal((1 << (1 << c)) - 1, 1 << c)
        else: self.U = unit_colours
        # definitional variables keep the terms small (the simplifier would otherwise hoist the ite-chains)
        self.defs = []
        if z3.is_bv_value(self.U): self.unit = self.expand_colours(self.U)
        else:
            self.unit = z3.BitVec(f'{prefix}UNITSET', self.W); self.defs.append(self.unit == self.expand_colours(self.U))
        self.Tfull = []
        for i, t in enumerate(self.T):
            tf = z3.BitVec(f'{prefix}TFULL{i}', self.W); self.defs.append(tf == self.expand_cs(t)); self.Tfull.append(tf)
    # ---- index helpers
    def pos(self, i, j): return i * (1 + self.k) + j
    def cpos(self, b): return self.n * (1 + self.k) + b
    def state_of(self, idx): return sum(((idx >> self.pos(i, 0)) & 1) << i for i in range(self.n))
    def copy_of(self, idx, j): return sum(((idx >> self.pos(i, j + 1)) & 1) << i for i in range(self.n))
    def colour_of(self, idx): return idx >> (self.n * (1 + self.k))
    def cs_of(self, idx): return (self.colour_of(idx) << self.n) | self.state_of(idx)
    def mask(self, key, pred):
        if key not in self._masks:
            self._masks[key] = sum(1 << idx for idx in range(self.W) if pred(idx))
        return self._masks[key]
    def const(self, pred): return z3.BitVecVal(sum(1 << idx for idx in range(self.W) if pred(idx)), self.W)
    def expand_cs(self, small):
        """BV over (colour,state) -> BV over all valuations (independent of the copies)"""
        r = self.zero
        for cs in range(self.NS):
            mk = self.mask(('cs', cs), lambda idx, cs=cs: self.cs_of(idx) == cs)
            r = r | z3.If(z3.Extract(cs, cs, small) == 1, z3.BitVecVal(mk, self.W), self.zero)
        return z3.simplify(r)
    def expand_colours(self, small):
        r = self.zero
        for col in range(1 << self.c):
            mk = self.mask(('col', col), lambda idx, col=col: self.colour_of(idx) == col)
            r = r | z3.If(z3.Extract(col, col, small) == 1, z3.BitVecVal(mk, self.W), self.zero)
        return z3.simplify(r)
    def from_cs_bools(self, per):
        """dict/list (colour,state) -> z3 Bool  ==> BV over all valuations"""
        r = self.zero
        for cs in range(self.NS):
            mk = self.mask(('cs', cs), lambda idx, cs=cs: self.cs_of(idx) == cs)
            r = r | z3.If(per[cs], z3.BitVecVal(mk, self.W), self.zero)
        return r
    def var_tt(self, b): return z3.BitVecVal(self.mask(('bit', b), lambda idx: (idx >> b) & 1), self.W)
    def flip(self, b, x):
        lo = self.mask(('lo', b), lambda idx: not (idx >> b) & 1)
        hi = ((1 << self.W) - 1) ^ lo; sh = 1 << b
        return ((x & z3.BitVecVal(lo, self.W)) << sh) | z3.LShR(x & z3.BitVecVal(hi, self.W), sh)
    def exists(self, x, bs):
        for b in bs: x = x | self.flip(b, x)
        return x
    def forall(self, x, bs):
        for b in bs: x = x & self.flip(b, x)
        return x
    def var_pre(self, i, x): return self.flip(self.pos(i, 0), x) & self.Tfull[i]
    def var_post(self, i, x): return self.flip(self.pos(i, 0), x & self.Tfull[i])
    def pre(self, x):
        r = self.zero
        for i in range(self.n): r = r | self.var_pre(i, x)
        return r
    def post(self, x):
        r = self.zero
        for i in range(self.n): r = r | self.var_post(i, x)
        return r
    def steady(self, within=None):
        r = self.unit if within is None else within
        for t in self.Tfull: r = r & ~t
        return r
    def copy_bits(self): return [self.pos(i, j + 1) for i in range(self.n) for j in range(self.k)]
    def state_bits(self): return [self.pos(i, 0) for i in range(self.n)]
    def independent_of_copies(self, x):
        return z3.And([self.flip(b, x) == x for b in self.copy_bits()]) if self.copy_bits() else z3.BoolVal(True)
    def bdd_var_by_name(self, name):
        mm = re.match(r'^(.*?)(?:_extra_(\d+))?$', name)
        if mm.group(1) not in self.names: raise Panic('BddVariableSet::mk_var_by_name: no variable ' + name)
        i = self.names.index(mm.group(1)); j = 0 if mm.group(2) is None else int(mm.group(2)) + 1
        if j > self.k: raise Panic('BddVariableSet::mk_var_by_name: no variable ' + name)
        return self.pos(i, j)
    # ---- explicit semantics on this model (one Kripke structure per colour), as a BV
    def kripke(self, col, wild=None, self_loops=True):
        def trans(i, s): return z3.Extract((col << self.n) | s, (col << self.n) | s, self.T[i]) == 1
        return S.Kripke(self.n, self.names, trans, wild, self_loops)

class GraphObj:
    def __init__(self, model, unit=None): self.model, self.unit = model, (model.unit if unit is None else unit)
class CtxObj:
    def __init__(self, model, canonical=False): self.model, self.canonical = model, canonical
class VarSetObj:
    def __init__(self, model): self.model = model

def install(I, M, attractor_model=None):
    """register the library model on interpreter I"""
    I.model = M
    def ext(I, fname, f, base, trait, meth, selfty, args):
        g = lambda x: x.get() if isinstance(x, Ptr) else x
        def gg(x):
            while isinstance(x, Ptr): x = x.get()
            return x
        M = I.model
        if trait == 'Set':
            I.models_used.add('Set::' + meth)
            a = gg(args[0]); b = gg(args[1]) if len(args) > 1 else None
            if meth == 'intersect': return a & b
            if meth == 'union': return a | b
            if meth == 'minus': return a & ~b
            if meth == 'is_empty': return a == 0
            if meth == 'is_subset': return (a & ~b) == 0
            return NotImplemented
        if trait == 'Clone' and args and (z3.is_expr(gg(args[0])) or isinstance(gg(args[0]), (CtxObj, GraphObj, Opaque))): return gg(args[0])
        if trait == 'PartialEq' and args and z3.is_expr(gg(args[0])) and z3.is_bv(gg(args[0])) and gg(args[0]).size() == M.W:
            r = gg(args[0]) == gg(args[1])
            return z3.Not(r) if meth == 'ne' else r
        name = f.split('::')[-1]
        if '_impl_symbolic_async_graph' in f:
            I.models_used.add('SymbolicAsyncGraph::' + name)
            gr = gg(args[0]) if args else None
            if name == 'mk_empty_colored_vertices': return M.zero
            if name == 'mk_unit_colored_vertices': return gr.unit
            if name == 'unit_colored_vertices': return Ptr(Cell(gr.unit))
            if name == 'pre': return M.pre(gg(args[1]))
            if name == 'post': return M.post(gg(args[1]))
            if name == 'var_pre': return M.var_pre(args[1], gg(args[2]))
            if name == 'var_post': return M.var_post(args[1], gg(args[2]))
            if name == 'variables': return SeqIter(list(range(M.n)))
            if name == 'symbolic_context': return Ptr(Cell(CtxObj(M)))
            if name == 'get_variable_name': return RString([ord(ch) for ch in M.names[args[1]]])
            if name == 'as_network': return Agg('Option', 1, [Ptr(Cell(Opaque('network')))])
            if name == 'num_vars': return M.n
            if name == 'mk_unit_colors' or name == 'unit_colors': raise Unsupported('colour sets are not modelled')
            if name == 'with_custom_context':
                # unit := unit_bdd & regulation constraints (= the valid colours of the model); Err when empty
                nu = gg(args[2]) & M.unit
                if I.truth(nu == 0): return Agg('Result', 1, [RString([ord(ch) for ch in 'No update functions satisfy given constraints: \n'])])
                return Agg('Result', 0, [GraphObj(M, nu)])
            return NotImplemented
        if '_impl_symbolic_context' in f:
            I.models_used.add('SymbolicContext::' + name)
            if name == 'bdd_variable_set': return Ptr(Cell(VarSetObj(M)))
            if name == 'find_network_variable':
                key = gg(args[1])
                for i, nm in enumerate(M.names):
                    if I.truth(I.equal(key, RStr([ord(ch) for ch in nm]))): return Agg('Option', 1, [i])
                return Agg('Option', 0, [])
            if name == 'mk_state_variable_is_true': return M.var_tt(M.pos(args[1], 0))
            if name == 'mk_constant': return M.full if args[1] else M.zero
            if name == 'extra_state_variables': return Ptr(Cell(RVec([M.pos(args[1], j + 1) for j in range(M.k)])))
            if name == 'state_variables': return Ptr(Cell(RVec(M.state_bits())))
            if name == 'as_canonical_context': return CtxObj(M, True)
            if name == 'num_extra_state_variables': return M.n * M.k
            if name == 'num_state_variables': return M.n
            if name == 'all_extra_state_variables': return Ptr(Cell(RVec(M.copy_bits())))
            if name == 'get_state_variable': return M.pos(args[1], 0)
            if name == 'get_extra_state_variable':
                if args[2] >= M.k: raise Panic('index out of bounds: extra state variable')
                return M.pos(args[1], args[2] + 1)
            if name == 'network_variables': return SeqIter(list(range(M.n)))
            if name == 'get_network_variable_name': return RString([ord(ch) for ch in M.names[args[1]]])
            if name == 'mk_extra_state_variable_is_true':
                if args[2] >= M.k: raise Panic('index out of bounds: extra state variable')
                return M.var_tt(M.pos(args[1], args[2] + 1))
            if name == 'transfer_from':
                b = gg(args[1])
                if I.truth(M.independent_of_copies(b)): return Agg('Option', 1, [b])
                return Agg('Option', 0, [])
            return NotImplemented
        if '_impl_bdd_variable_set' in f and name == 'var_by_name':
            # the BDD variable set holds the state variables, their k auxiliary copies "<var>_extra_<j>" and the parameter
            # variables (names with brackets: never equal to an identifier of the formula language, not enumerated)
            I.models_used.add('BddVariableSet::var_by_name')
            key = gg(args[1])
            for i, nm in enumerate(M.names):
                for j in range(M.k + 1):
                    full = nm if j == 0 else f'{nm}_extra_{j - 1}'
                    if I.truth(I.equal(key, RStr([ord(ch) for ch in full]))): return Agg('Option', 1, [M.pos(i, j)])
            return Agg('Option', 0, [])
        if '_impl_bdd_variable_set' in f and name == 'mk_var_by_name':
            I.models_used.add('BddVariableSet::mk_var_by_name')
            nm = gg(args[1])
            if any(not isinstance(ch, int) for ch in nm.chars): raise Unsupported('symbolic BDD variable name')
            return M.var_tt(M.bdd_var_by_name(show(nm.chars)))
        if '_impl_bdd::' in f:
            I.models_used.add('Bdd::' + name)
            a = gg(args[0])
            if name == 'and': return a & gg(args[1])
            if name == 'or': return a | gg(args[1])
            if name == 'iff': return ~(a ^ gg(args[1]))
            if name == 'xor': return a ^ gg(args[1])
            if name == 'imp': return ~a | gg(args[1])
            if name == 'and_not': return a & ~gg(args[1])
            if name == 'not': return ~a
            if name == 'is_false': return a == 0
            if name == 'is_true': return a == M.full
            if name in ('for_all', 'forall'):
                vs = gg(args[1]); vs = vs.items if isinstance(vs, RVec) else vs.vec.items[vs.lo:vs.hi]
                return M.forall(a, vs)
            if name in ('var_exists', 'var_project', 'var_for_all'):
                return M.exists(a, [args[1]]) if name != 'var_for_all' else M.forall(a, [args[1]])
            if name == 'project': 
                vs = gg(args[1]); vs = vs.items if isinstance(vs, RVec) else vs.vec.items[vs.lo:vs.hi]
                return M.exists(a, vs)
            if name == 'exists':
                vs = gg(args[1]); vs = vs.items if isinstance(vs, RVec) else vs.vec.items[vs.lo:vs.hi]
                return M.exists(a, vs)
            return NotImplemented
        if '_impl_graph_colored_vertices' in f or '_impl_graph_colors' in f or '_impl_graph_vertices' in f:
            I.models_used.add('GraphColoredVertices::' + name)
            if name == 'new': return gg(args[0])
            if name == 'as_bdd': return args[0] if isinstance(args[0], Ptr) else Ptr(Cell(args[0]))
            if name == 'into_bdd': return gg(args[0])
            if name in ('approx_cardinality', 'exact_cardinality'):
                # exact number of elements (the model has at most 2^9 valuations, far below the f64 mantissa)
                x = gg(args[0]); W = M.W
                tot = z3.BitVecVal(0, 16)
                for i in range(W): tot = tot + z3.ZeroExt(15, z3.Extract(i, i, x))
                return tot
            if name == 'is_singleton':
                x = gg(args[0]); return z3.And(x != 0, (x & (x - 1)) == 0)
            if name == 'copy': return gg(args[1])
            return NotImplemented
        if base.endswith('FixedPoints::symbolic'):
            I.models_used.add('FixedPoints::symbolic')
            return M.steady(gg(args[1]))
        return NotImplemented
    I.ext = [e for e in I.ext if getattr(e, '_bio', False) is False]
    ext._bio = True
    I.ext.append(ext)
