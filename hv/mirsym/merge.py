"""E-MIR merge mode: bounded symbolic execution of one loop-carrying function with state merging (DESIGN.md 3.2).

The non-cleanup CFG of the function is unrolled; states reaching the same (loop-iteration vector, block) are merged with
`ite` on their guards.  Every loop bound produces an unwinding assertion (a guard that must be unsatisfiable).
Scope: the set-algebra kernels of hctl_operators_eval.rs (values: sets as bit-vectors, Booleans, concrete iterators).
"""
import re, heapq, itertools
import z3
from .interp import Unsupported, Panic, Agg, SeqIter, FnItem, Closure, PyFn, split_call
from .mir import split_top, strip_generics
from .biomodel import GraphObj
from ..oracle import sem as S

class Poison:
    def __repr__(self): return 'POISON'
POISON = Poison()
class LRef:
    """reference to a place of the current frame"""
    __slots__ = ('loc', 'projs')
    def __init__(self, loc, projs=()): self.loc, self.projs = loc, tuple(projs)
class VRef:
    """reference to an immutable value (snapshot)"""
    __slots__ = ('v',)
    def __init__(self, v): self.v = v
class It:
    """concrete iterator state"""
    __slots__ = ('items', 'i')
    def __init__(self, items, i=0): self.items, self.i = tuple(items), i

class MapIt:
    """lazy `iter.map(closure)` / `iter.filter(closure)` over a concrete iterator"""
    __slots__ = ('kind', 'src', 'clo')
    def __init__(self, kind, src, clo): self.kind, self.src, self.clo = kind, src, clo
class GIt:
    """iterator over concrete items each of which is present under a guard (the result of collecting a filter):
    alive[j] is a z3 Bool "item j is present and not consumed yet" """
    __slots__ = ('items', 'alive')
    def __init__(self, items, alive): self.items, self.alive = tuple(items), tuple(alive)
def _b(x): return z3.BoolVal(x) if isinstance(x, bool) else x
def _variant_term(v): return z3.BitVecVal(v, 8) if isinstance(v, int) else v

def merge_val(g, a, b):
    """value = a if g else b"""
    if a is b: return a
    if a is POISON or b is POISON: return POISON
    if z3.is_expr(a) or z3.is_expr(b):
        if isinstance(a, bool): a = z3.BoolVal(a)
        if isinstance(b, bool): b = z3.BoolVal(b)
        if not (z3.is_expr(a) and z3.is_expr(b)): return POISON
        if a.eq(b): return a
        if a.sort() != b.sort(): return POISON
        return z3.If(g, a, b)
    if isinstance(a, bool) and isinstance(b, bool):
        return a if a == b else z3.If(g, z3.BoolVal(a), z3.BoolVal(b))
    if isinstance(a, int) and isinstance(b, int): return a if a == b else POISON
    if isinstance(a, It) and isinstance(b, It): return a if (a.items, a.i) == (b.items, b.i) else POISON
    if isinstance(a, Agg) and isinstance(b, Agg) and a.name == b.name and a.variant is not None and b.variant is not None and (z3.is_expr(a.variant) or z3.is_expr(b.variant) or a.variant != b.variant):
        # Option / Result whose variant differs between the merged paths: symbolic discriminant, payload of whichever side has one
        fa, fb = list(a.fields), list(b.fields)
        if len(fa) != len(fb):
            if not fa: fa = fb
            elif not fb: fb = fa
            else: return POISON
        return Agg(a.name, z3.If(g, _variant_term(a.variant), _variant_term(b.variant)), [merge_val(g, x, y) for x, y in zip(fa, fb)])
    if isinstance(a, Agg) and isinstance(b, Agg) and a.name == b.name and a.variant == b.variant and len(a.fields) == len(b.fields):
        return Agg(a.name, a.variant, [merge_val(g, x, y) for x, y in zip(a.fields, b.fields)])
    if isinstance(a, GIt) and isinstance(b, GIt) and a.items == b.items:
        return GIt(a.items, [z3.If(g, _b(x), _b(y)) for x, y in zip(a.alive, b.alive)])
    if isinstance(a, Closure) and isinstance(b, Closure) and a.span == b.span and len(a.caps) == len(b.caps):
        return Closure(a.span, [merge_val(g, x, y) for x, y in zip(a.caps, b.caps)])
    if isinstance(a, LRef) and isinstance(b, LRef) and (a.loc, a.projs) == (b.loc, b.projs): return a
    if isinstance(a, VRef) and isinstance(b, VRef): return VRef(merge_val(g, a.v, b.v))
    if a == () and b == (): return ()
    return POISON

def analyse(succ):
    order, seen, onstack, back = [], set(), set(), set()
    def dfs(b):
        seen.add(b); onstack.add(b)
        for t in succ.get(b, []):
            if t in onstack: back.add((b, t))
            elif t not in seen: dfs(t)
        onstack.discard(b); order.append(b)
    dfs('bb0')
    rpo = {b: i for i, b in enumerate(reversed(order))}
    pred = {}
    for b, ts in succ.items():
        for t in ts: pred.setdefault(t, []).append(b)
    loops = {}
    for (u, h) in back:
        body = loops.setdefault(h, {h})
        stack = [u]
        while stack:
            x = stack.pop()
            if x not in body:
                body.add(x); stack += pred.get(x, [])
    return rpo, back, loops

class MergeExec:
    def __init__(self, I, M, unwind):
        """I: Interp (MIR tables, parsers); M: biomodel.Model; unwind(fn_name) -> loop bound"""
        self.I, self.M, self.unwind = I, M, unwind
        self.side = []           # (description, guard): guards that must be unsatisfiable (unwinding assertions, unreachable, panics)
        self.calls = 0
        self.blocks_seen = {}    # fn name -> set of blocks executed with a not-syntactically-false guard
        self.functions = set()
        self.max_iter = {}
    # ---- places
    def get(self, st, loc, projs):
        v = st.get(loc, POISON)
        for pr in projs:
            k = pr[0]
            if k == 'deref':
                if isinstance(v, LRef): v = self.get(st, v.loc, v.projs)
                elif isinstance(v, VRef): v = v.v
                elif z3.is_expr(v) or isinstance(v, int): pass      # reference to a Copy scalar handed out by an iterator model
                else: raise Unsupported(f'merge: deref of {v!r}')
            elif k == 'field':
                if not isinstance(v, Agg): raise Unsupported(f'merge: field of {v!r}')
                v = v.fields[pr[1]]
            elif k == 'downcast': pass
            else: raise Unsupported('merge: projection ' + k)
        return v
    def set(self, st, loc, projs, nv):
        if not projs: st[loc] = nv; return
        if projs[0][0] == 'deref' and len(projs) == 1:
            r = st[loc]
            if isinstance(r, LRef): return self.set(st, r.loc, r.projs, nv)
        if projs[-1][0] == 'field':
            base = self.get(st, loc, projs[:-1])
            if isinstance(base, Agg):
                nb = Agg(base.name, base.variant, list(base.fields)); nb.fields[projs[-1][1]] = nv
                return self.set(st, loc, projs[:-1], nb)
        raise Unsupported('merge: store through projection')
    def operand(self, st, o, fn):
        o = o.strip()
        if o.startswith(('copy ', 'move ')):
            loc, projs = self.I.parse_place(o[5:], fn)
            v = self.get(st, loc, projs)
            if v is POISON: raise Unsupported('merge: use of a value that differs between merged paths: ' + o)
            return v
        if o.startswith('const '): return self.I.const(o[6:])
        if o.startswith('no_retag '): return self.operand(st, o[9:], fn)
        return FnItem(o)
    def rvalue(self, st, rv, fn):
        rv = rv.strip()
        if rv.startswith('&mut ') or (rv.startswith('&') and not rv.startswith('&raw')):
            p = rv[5:] if rv.startswith('&mut ') else rv[1:]
            loc, projs = self.I.parse_place(p, fn)
            # &(*_2) of a reference is the reference itself
            if projs and projs[-1][0] == 'deref':
                inner = self.get(st, loc, projs[:-1])
                if isinstance(inner, (LRef, VRef)): return inner
            return LRef(loc, projs)
        m = re.match(r'^discriminant\((.+)\)$', rv)
        if m:
            loc, projs = self.I.parse_place(m.group(1), fn)
            v = self.get(st, loc, projs)
            if not isinstance(v, Agg) or v.variant is None: raise Unsupported(f'merge: discriminant of {v!r}')
            return v.variant       # int, or a z3 bit-vector when the variant differs between merged paths
        m = re.match(r'^Not\((.*)\)$', rv)
        if m:
            a = self.operand(st, m.group(1), fn)
            return z3.Not(a) if z3.is_expr(a) else (not a)
        m = re.match(r'^(Eq|Ne|Lt|Le|Gt|Ge|BitAnd|BitOr)\((.*)\)$', rv)
        if m:
            a, b = [self.operand(st, x, fn) for x in split_top(m.group(2))]
            return self.I.binop(m.group(1), a, b)
        if rv.startswith('(') and rv.endswith(')') and not rv.startswith('(*') and not rv.startswith('(('):
            return Agg('tuple', None, [self.operand(st, x, fn) for x in split_top(rv[1:-1])])
        if rv.startswith(('copy ', 'move ', 'const ', 'no_retag ')):
            return self.operand(st, rv, fn)
        m = re.match(r'^\{closure@([^}]*)\}(?: \{(.*)\})?$', rv)
        if m:
            caps = []
            if m.group(2):
                for part in split_top(m.group(2)):
                    caps.append(self.operand(st, part.split(':', 1)[1].strip(), fn))
            return Closure(m.group(1), caps)
        raise Unsupported('merge: rvalue ' + rv)
    # ---- calls
    def call(self, st, fname, args, guard):
        self.calls += 1
        M = self.M
        f = strip_generics(fname)
        def val(x):
            while isinstance(x, (LRef, VRef)):
                x = self.get(st, x.loc, x.projs) if isinstance(x, LRef) else x.v
            return x
        m = re.match(r'^<(.+) as (.+)>::(\w+)$', f)
        trait, meth = (re.sub(r'<.*$', '', m.group(2)).split('::')[-1], m.group(3)) if m else (None, None)
        name = f.split('::')[-1]
        if trait == 'Set':
            a = val(args[0]); b = val(args[1]) if len(args) > 1 else None
            if meth == 'intersect': return a & b
            if meth == 'union': return a | b
            if meth == 'minus': return a & ~b
            if meth == 'is_empty': return a == 0
            if meth == 'is_subset': return (a & ~b) == 0
        if trait == 'Clone': return val(args[0])
        if '_impl_graph_colored_vertices' in f and name in ('approx_cardinality', 'exact_cardinality'):
            x = val(args[0]); tot = z3.BitVecVal(0, 16)
            for i in range(M.W): tot = tot + z3.ZeroExt(15, z3.Extract(i, i, x))
            return tot
        if '_impl_graph_colored_vertices' in f and name == 'as_bdd': return args[0]
        if '_impl_bdd::' in f:
            a = val(args[0])
            if name == 'and': return a & val(args[1])
            if name == 'or': return a | val(args[1])
            if name == 'xor': return a ^ val(args[1])
            if name == 'iff': return ~(a ^ val(args[1]))
            if name == 'not': return ~a
            if name == 'is_false': return a == 0
        if '_impl_graph_colored_vertices' in f and name == 'new': return val(args[0])
        if '_impl_symbolic_async_graph' in f and name == 'symbolic_context': return VRef(None)
        if trait == 'PartialEq' and meth in ('eq', 'ne'):
            a, b = val(args[0]), val(args[1])
            r = (a == b)
            if isinstance(r, bool): return (not r) if meth == 'ne' else r
            return z3.Not(r) if meth == 'ne' else r
        if trait in ('FnMut', 'Fn', 'FnOnce'):
            f0 = val(args[0])
            if isinstance(f0, Closure) and f0.span in self.I.closures:
                targs = val(args[1])
                return self.call_closure(st, f0, list(targs.fields) if isinstance(targs, Agg) else [targs], guard)
            return ()          # progress callback: no effect on sets (assumption)
        if trait == 'IntoIterator' and meth == 'into_iter': return args[0]
        if name in ('iter', 'into_iter') and isinstance(val(args[0]), (GIt, It)): return val(args[0])
        if trait == 'Deref' and isinstance(val(args[0]), (GIt, It)): return args[0]
        if trait in ('Iterator', 'DoubleEndedIterator'):
            it = val(args[0])
            if meth in ('copied', 'cloned', 'by_ref') and isinstance(it, (It, GIt, MapIt)): return it
            if meth in ('map', 'filter') and isinstance(it, (It, MapIt)):
                clo = val(args[1])
                if not isinstance(clo, Closure): raise Unsupported('merge: ' + meth + ' with ' + repr(clo))
                return MapIt(meth, it, clo)
            if meth in ('find', 'any', 'all', 'collect', 'count', 'last') and isinstance(it, (It, MapIt)):
                vals = self.expand(st, it, guard)       # [(presence guard, value)] in iteration order
                if meth == 'collect': return GIt([v_ for _, v_ in vals], [g_ for g_, _ in vals])
                if meth in ('any', 'all', 'find'):
                    clo = val(args[1])
                    if not isinstance(clo, Closure): raise Unsupported('merge: ' + meth + ' with ' + repr(clo))
                    ps = [z3.And(_b(g_), _b(self.call_closure(st, clo, [VRef(v_) if meth == 'find' else v_], guard))) if meth != 'all' else z3.Implies(_b(g_), _b(self.call_closure(st, clo, [v_], guard))) for g_, v_ in vals]
                    if meth == 'any': return z3.Or(ps) if ps else False
                    if meth == 'all': return z3.And(ps) if ps else True
                    if not vals: return Agg('Option', 0, [])
                    payload = vals[-1][1]
                    for (g_, v_), p_ in reversed(list(zip(vals[:-1], ps[:-1]))): payload = merge_val(p_, v_, payload)
                    if payload is POISON: raise Unsupported('merge: find over structurally different items')
                    return Agg('Option', z3.If(z3.Or(ps), z3.BitVecVal(1, 8), z3.BitVecVal(0, 8)), [payload])
                raise Unsupported('merge: iterator method ' + meth)
            if meth == 'rev':
                if isinstance(it, MapIt): return MapIt(it.kind, It(tuple(reversed(it.src.items[it.src.i:]))), it.clo) if isinstance(it.src, It) else (_ for _ in ()).throw(Unsupported('merge: rev of nested adaptor'))
                if isinstance(it, GIt): return GIt(tuple(reversed(it.items)), tuple(reversed(it.alive)))
                return It(tuple(reversed(it.items[it.i:])))
            if meth == 'next' and isinstance(it, GIt):
                # first item that is still alive; afterwards it and everything before it are consumed
                none_before = z3.BoolVal(True); firsts = []
                for a_ in it.alive:
                    firsts.append(z3.simplify(z3.And(none_before, _b(a_)))); none_before = z3.simplify(z3.And(none_before, z3.Not(_b(a_))))
                r = args[0]
                if not isinstance(r, LRef): raise Unsupported('merge: iterator not in a local')
                # alive_j' = alive_j and some earlier-or-equal item was NOT the one taken, i.e. j comes after the first alive one
                taken_before = z3.BoolVal(False); na = []
                for a_, f_ in zip(it.alive, firsts):
                    na.append(z3.simplify(z3.And(_b(a_), taken_before))); taken_before = z3.simplify(z3.Or(taken_before, f_))
                self.set(st, r.loc, r.projs, GIt(it.items, na))
                if not it.items: return Agg('Option', 0, [])
                payload = it.items[-1]
                for v_, f_ in reversed(list(zip(it.items[:-1], firsts[:-1]))): payload = merge_val(f_, v_, payload)
                if isinstance(payload, int) and len(set(it.items)) > 1: payload = POISON
                if payload is POISON:
                    # items are small integers (variable ids): a symbolic id
                    if all(isinstance(x, int) for x in it.items):
                        payload = z3.BitVecVal(it.items[-1], 16)
                        for v_, f_ in reversed(list(zip(it.items[:-1], firsts[:-1]))): payload = z3.If(f_, z3.BitVecVal(v_, 16), payload)
                    else: raise Unsupported('merge: guarded iterator over structured items')
                return Agg('Option', z3.simplify(z3.If(z3.Or(firsts), z3.BitVecVal(1, 8), z3.BitVecVal(0, 8))), [payload])
            if meth == 'next' and isinstance(it, MapIt) and it.kind == 'map' and isinstance(it.src, It):
                src = it.src
                if src.i >= len(src.items): return Agg('Option', 0, [])
                r = args[0]
                if not isinstance(r, LRef): raise Unsupported('merge: iterator not in a local')
                self.set(st, r.loc, r.projs, MapIt('map', It(src.items, src.i + 1), it.clo))
                return Agg('Option', 1, [self.call_closure(st, it.clo, [src.items[src.i]], guard)])
            if meth == 'next':
                if not isinstance(it, It): raise Unsupported('merge: next on ' + repr(it))
                if it.i >= len(it.items): return Agg('Option', 0, [])
                r = args[0]
                if isinstance(r, LRef): self.set(st, r.loc, r.projs, It(it.items, it.i + 1))
                else: raise Unsupported('merge: iterator not in a local')
                return Agg('Option', 1, [it.items[it.i]])
        if re.match(r'^(core::option::)?Option::<.*>::\w+$|^(core::option::)?Option::\w+$', re.sub(r'::<[^:]*>::', '::<T>::', f)) or f.startswith(('Option::', 'core::option::Option::')):
            o = val(args[0])
            if isinstance(o, Agg) and o.name == 'Option':
                vt = o.variant
                is_some = (vt == 1) if isinstance(vt, int) else z3.simplify(vt == z3.BitVecVal(1, vt.size()))
                if name == 'is_some': return is_some
                if name == 'is_none': return (not is_some) if isinstance(is_some, bool) else z3.Not(is_some)
                if name in ('as_ref', 'as_mut', 'cloned', 'copied'): return o
                if name in ('unwrap', 'expect'):
                    if is_some is False: self.side.append(('Option::unwrap on None', guard)); return POISON
                    if is_some is not True: self.side.append(('Option::unwrap on None', z3.And(guard, z3.Not(is_some))))
                    return o.fields[0]
                if name == 'unwrap_or':
                    if is_some is True: return o.fields[0]
                    if is_some is False: return val(args[1])
                    return merge_val(is_some, o.fields[0], val(args[1]))
        if trait == 'Drop': return ()
        if '_impl_symbolic_async_graph' in f:
            gr = val(args[0])
            if name == 'mk_empty_colored_vertices': return M.zero
            if name == 'mk_unit_colored_vertices': return gr.unit
            if name == 'unit_colored_vertices': return VRef(gr.unit)
            if name == 'pre': return M.pre(val(args[1]))
            if name == 'post': return M.post(val(args[1]))
            if name in ('var_pre', 'var_post', 'var_can_pre', 'var_can_post', 'var_can_pre_within', 'var_can_post_within', 'var_can_pre_out', 'var_can_post_out'):
                vid, x = val(args[1]), val(args[2])
                def one(i):
                    if name == 'var_pre': return M.var_pre(i, x)
                    if name == 'var_post': return M.var_post(i, x)
                    if name == 'var_can_pre': return x & M.var_post(i, gr.unit)                 # states of x with an incoming i-transition
                    if name == 'var_can_post': return x & M.var_pre(i, gr.unit)                # states of x that can fire i
                    if name == 'var_can_post_within': return x & M.var_pre(i, x)               # ... and stay inside x
                    if name == 'var_can_pre_within': return x & M.var_post(i, x)
                    if name == 'var_can_post_out': return x & M.var_pre(i, gr.unit & ~x)
                    if name == 'var_can_pre_out': return x & M.var_post(i, gr.unit & ~x)
                if isinstance(vid, int): return one(vid)
                r = one(M.n - 1)
                for i in reversed(range(M.n - 1)): r = z3.If(vid == z3.BitVecVal(i, vid.size()), one(i), r)
                return r
            if name in ('can_pre', 'can_post'):
                x = val(args[1]); return x & (M.post(gr.unit) if name == 'can_pre' else M.pre(gr.unit))
            if name == 'variables': return It(tuple(range(M.n)))
        loc = self.I.resolve_local(fname)
        if loc is not None:
            # references into this frame are passed as immutable snapshots (callbacks pass through)
            a2 = []
            for a in args:
                if isinstance(a, LRef):
                    v = self.get(st, a.loc, a.projs)
                    a2.append(v if isinstance(v, (LRef, VRef)) and False else VRef(val(a)))
                else: a2.append(a)
            return self.run(loc, a2, guard)
        raise Unsupported('merge: call ' + fname)
    def call_closure(self, st, clo, args, guard):
        cf = self.I.closures[clo.span]
        def snap(x):
            # captured references point into the frame that created the closure (the current one): pass snapshots
            if isinstance(x, LRef):
                v = self.get(st, x.loc, x.projs)
                while isinstance(v, LRef): v = self.get(st, v.loc, v.projs)
                return v if isinstance(v, VRef) else VRef(v)
            return x
        env = Agg('closure', None, [snap(c) for c in clo.caps])
        byref = (cf.ltypes.get(1) or '').startswith('&')
        return self.run(cf, [VRef(env) if byref else env] + list(args), guard)
    def expand(self, st, it, guard):
        """items of a (possibly adapted) concrete iterator as [(presence guard, value)]"""
        if isinstance(it, It): return [(True, x) for x in it.items[it.i:]]
        if isinstance(it, MapIt):
            out = []
            for g_, v_ in self.expand(st, it.src, guard):
                if it.kind == 'map': out.append((g_, self.call_closure(st, it.clo, [v_], guard)))
                else:
                    p_ = self.call_closure(st, it.clo, [VRef(v_)], guard)
                    out.append((z3.And(_b(g_), _b(p_)), v_))
            return out
        raise Unsupported('merge: expand ' + repr(it))
    # ---- function execution with merging
    def run(self, fn, args, guard=None):
        guard = z3.BoolVal(True) if guard is None else guard
        self.functions.add(fn.name)
        if getattr(fn, 'nargs', len(args)) != len(args):
            from .interp import Unsupported
            raise Unsupported(f'signature of {fn.name} changed: {fn.nargs} parameters in the MIR of the working tree, the harness passes {len(args)}')
        succ = {}
        for b, stmts in fn.blocks.items():
            if b in fn.cleanup: continue
            t = stmts[-1]
            succ[b] = [x for x in (re.findall(r'\b(bb\d+)\b', t.split('->', 1)[1]) if '->' in t else []) if x not in fn.cleanup]
        rpo, back, loops = analyse(succ)
        bound = self.unwind(fn.name)
        init = {i + 1: a for i, a in enumerate(args)}
        pq = []; cnt = itertools.count(); pending = {}
        def push(key, bbn, ctx, st, g):
            k = (tuple(key), bbn)
            if k in pending:
                ost, og, octx = pending[k]
                ng = S.Or(g, og)
                keys = set(st) | set(ost)
                pending[k] = ({x: merge_val(g, st.get(x, POISON), ost.get(x, POISON)) for x in keys}, ng, ctx)
            else:
                pending[k] = (st, g, ctx)
                heapq.heappush(pq, (tuple(key), next(cnt), bbn))
        push([rpo['bb0']], 'bb0', (), init, guard)
        ret_val, ret_g = None, None
        seen = self.blocks_seen.setdefault(fn.name, set())
        while pq:
            key, _, bbn = heapq.heappop(pq)
            st, g, ctx = pending.pop((key, bbn))
            st = dict(st)
            seen.add(bbn)
            stmts = fn.blocks[bbn]
            for s in stmts[:-1]: self.stmt(st, s, fn)
            for tgt, cond in self.terminator(st, stmts[-1], fn, g):
                ng = g if cond is True else S.And(g, cond if z3.is_expr(cond) else z3.BoolVal(bool(cond)))
                if z3.is_false(ng): continue
                if tgt == 'return':
                    v = st.get(0)
                    if ret_val is None: ret_val, ret_g = v, ng
                    else: ret_val, ret_g = merge_val(ng, v, ret_val), z3.Or(ng, ret_g)
                    continue
                if tgt == 'unreachable':
                    self.side.append(('unreachable reached in ' + fn.name, ng)); continue
                if tgt.startswith('panic:'):
                    self.side.append(('panic in ' + fn.name + ': ' + tgt[6:], ng)); continue
                nctx = list(ctx)
                while nctx and tgt not in loops[nctx[-1][0]]: nctx.pop()
                if (bbn, tgt) in back:
                    assert nctx and nctx[-1][0] == tgt
                    h, it = nctx[-1]
                    self.max_iter[fn.name] = max(self.max_iter.get(fn.name, 0), it + 1)
                    if it + 1 > bound:
                        self.side.append((f'unwinding assertion {fn.name}:{tgt} > {bound}', ng)); continue
                    nctx[-1] = (h, it + 1)
                elif tgt in loops and not (nctx and nctx[-1][0] == tgt):
                    nctx.append((tgt, 0))
                nkey = []
                for h, it in nctx: nkey += [rpo[h], it]
                nkey.append(rpo[tgt])
                push(nkey, tgt, tuple(nctx), dict(st), ng)
        if ret_val is POISON: raise Unsupported('merge: return value differs structurally between paths in ' + fn.name)
        return ret_val
    def stmt(self, st, s, fn):
        if s.startswith(('StorageLive', 'StorageDead', 'nop', 'FakeRead', 'PlaceMention', 'Retag', 'Deinit', 'AscribeUserType', 'Coverage', 'ConstEvalCounter', 'BackwardIncompatibleDropHint')): return
        m = re.match(r'^(.+?) = (.*);$', s)
        if not m: raise Unsupported('merge: stmt ' + s)
        loc, projs = self.I.parse_place(m.group(1), fn)
        self.set(st, loc, projs, self.rvalue(st, m.group(2), fn))
    def terminator(self, st, t, fn, g):
        tt = self.I.term(t, fn)
        k = tt[0]
        if k == 'return': return [('return', True)]
        if k == 'unreachable': return [('unreachable', True)]
        if k == 'goto': return [(tt[1], True)]
        if k == 'switch':
            v = self.operand(st, tt[1], fn)
            if isinstance(v, bool): v = int(v)
            if isinstance(v, int):
                for kk, tg in tt[2]:
                    if kk is None or kk == v: return [(tg, True)]
                return [('unreachable', True)]
            if z3.is_bv(v):
                v = z3.simplify(v)
                if z3.is_bv_value(v):
                    for kk, tg in tt[2]:
                        if kk is None or kk == v.as_long(): return [(tg, True)]
                    return [('unreachable', True)]
                outs = []; others = []
                for kk, tg in tt[2]:
                    if kk is None: outs.append((tg, z3.And([v != z3.BitVecVal(o_, v.size()) for o_ in others]) if others else True))
                    else: outs.append((tg, v == z3.BitVecVal(kk, v.size()))); others.append(kk)
                return outs
            if not z3.is_bool(v): raise Unsupported('merge: switch on non-boolean symbolic value')
            outs = []
            for kk, tg in tt[2]:
                if kk == 0: outs.append((tg, z3.Not(v)))
                else: outs.append((tg, v))
            return outs
        if k == 'call':
            args = [self.operand(st, a, fn) for a in tt[3]]
            r = self.call(st, tt[2], args, g)
            loc, projs = self.I.parse_place(tt[1], fn)
            self.set(st, loc, projs, r)
            return [(tt[4], True)]
        if k == 'assert':
            c = self.operand(st, tt[2], fn)
            if isinstance(c, bool):
                ok = (not c) if tt[1] else c
                return [(tt[4], True)] if ok else [('panic:' + tt[3], True)]
            okc = z3.Not(c) if tt[1] else c
            return [(tt[4], okc), ('panic:' + tt[3], z3.Not(okc))]
        raise Unsupported('merge: terminator ' + t)

def has_loop(fn):
    succ = {}
    for b, stmts in fn.blocks.items():
        if b in fn.cleanup: continue
        t = stmts[-1]
        succ[b] = [x for x in (re.findall(r'\b(bb\d+)\b', t.split('->', 1)[1]) if '->' in t else []) if x not in fn.cleanup]
    return bool(analyse(succ)[1])
