"""Building / reading HctlTreeNode values inside the MIR interpreter (through the repository's own constructors)."""
from .mirsym.interp import Agg, RString, RStr, Cell, Ptr, mkref, mkstr, show, Unsupported
from .oracle import sem as S

UN = {'not': 'Not', 'EX': 'EX', 'AX': 'AX', 'EF': 'EF', 'AF': 'AF', 'EG': 'EG', 'AG': 'AG'}
BIN = {'and': 'And', 'or': 'Or', 'xor': 'Xor', 'imp': 'Imp', 'iff': 'Iff', 'EU': 'EU', 'AU': 'AU', 'EW': 'EW', 'AW': 'AW'}
HYB = {'bind': 'Bind', 'jump': 'Jump', 'exists': 'Exists', 'forall': 'Forall'}
RUN = {v: k for k, v in UN.items()}; RBIN = {v: k for k, v in BIN.items()}; RHYB = {v: k for k, v in HYB.items()}

def enum(I, ty, name): return Agg(ty, I.enums[ty].index(name), [])

def sref(x):
    """&str from python str or list of chars (ints / z3 terms)"""
    return mkref(x) if isinstance(x, str) else RStr(x)
def sown(x): return mkstr(x) if isinstance(x, str) else RString(x)

def build(I, phi):
    """HctlTreeNode built with the public constructors executed from MIR.  Names may be python strings or char lists."""
    op = phi[0]
    T = 'HctlTreeNode'
    if op == 'true': return I.run(I.fn('mk_constant', T), [True])
    if op == 'false': return I.run(I.fn('mk_constant', T), [False])
    if op == 'prop': return I.run(I.fn('mk_proposition', T), [sref(phi[1])])
    if op == 'var': return I.run(I.fn('mk_variable', T), [sref(phi[1])])
    if op == 'wild': return I.run(I.fn('mk_wild_card', T), [sref(phi[1])])
    if op in UN: return I.run(I.fn('mk_unary', T), [build(I, phi[1]), enum(I, 'UnaryOp', UN[op])])
    if op in BIN: return I.run(I.fn('mk_binary', T), [build(I, phi[1]), build(I, phi[2]), enum(I, 'BinaryOp', BIN[op])])
    if op == 'jump': return I.run(I.fn('mk_hybrid', T), [build(I, phi[2]), sref(phi[1]), Agg('Option', 0, []), enum(I, 'HybridOp', 'Jump')])
    if op in HYB:
        dom = Agg('Option', 0, []) if phi[2] is None else Agg('Option', 1, [sown(phi[2])])
        return I.run(I.fn('mk_hybrid', T), [build(I, phi[3]), sref(phi[1]), dom, enum(I, 'HybridOp', HYB[op])])
    raise KeyError(op)

def chars(v):
    while isinstance(v, Ptr): v = v.get()
    return list(v.chars)

def read(I, node, names_as='chars'):
    """HctlTreeNode aggregate -> AST (names as tuples of chars, so symbolic names survive)"""
    while isinstance(node, (Ptr, Cell)): node = node.get() if isinstance(node, Ptr) else node.v
    nt = node.fields[2]
    k = I.enums['NodeType'][nt.variant]
    nm = (lambda x: tuple(chars(x))) if names_as == 'chars' else (lambda x: show(chars(x)))
    if k == 'Terminal':
        a = nt.fields[0]; an = I.enums['Atomic'][a.variant]
        if an == 'True': return ('true',)
        if an == 'False': return ('false',)
        return ({'Var': 'var', 'Prop': 'prop', 'WildCardProp': 'wild'}[an], nm(a.fields[0]))
    if k == 'Unary': return (RUN[I.enums['UnaryOp'][nt.fields[0].variant]], read(I, nt.fields[1], names_as))
    if k == 'Binary': return (RBIN[I.enums['BinaryOp'][nt.fields[0].variant]], read(I, nt.fields[1], names_as), read(I, nt.fields[2], names_as))
    op = RHYB[I.enums['HybridOp'][nt.fields[0].variant]]
    if op == 'jump': return ('jump', nm(nt.fields[1]), read(I, nt.fields[3], names_as))
    d = nt.fields[2]
    return (op, nm(nt.fields[1]), None if d.variant == 0 else nm(d.fields[0]), read(I, nt.fields[3], names_as))

def stored(I, node):
    """(formula_str chars, height) stored in the node"""
    while isinstance(node, (Ptr, Cell)): node = node.get() if isinstance(node, Ptr) else node.v
    return list(node.fields[0].chars), node.fields[1]

def children(I, node):
    while isinstance(node, (Ptr, Cell)): node = node.get() if isinstance(node, Ptr) else node.v
    nt = node.fields[2]
    k = I.enums['NodeType'][nt.variant]
    if k == 'Terminal': return []
    if k == 'Unary': return [nt.fields[1]]
    if k == 'Binary': return [nt.fields[1], nt.fields[2]]
    return [nt.fields[3]]
