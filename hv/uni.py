"""E-UNI: universal-instance equivalence (DESIGN.md 3.5).

The natively compiled pipeline of the working tree is run on a network whose update functions are uninterpreted; the
result BDD ranges over every colour; it is exported and z3 decides its equivalence with the explicit semantics
(hv.oracle.sem) for all colours, states and values of the auxiliary variables.
"""
import itertools, time, z3
from . import front
from .oracle import sem as S

# ------------------------------------------------------------------ instances
def universal_aeon(n, wild=(), zero=(), regs=None, explicit=None, implicit=()):
    """Network v0..v{n-1}.  By default every variable has `$vi: fi(v0..)` with all regulations `-??` (every Boolean
    network on n variables is a colour).  regs: dict (src,tgt) -> arrow overriding '-??' (e.g. '->', '-|', '-?').
    wild: names of n-ary parameters w(v0..) (arbitrary coloured sets), zero: names of 0-ary parameters (colour sets);
    they are attached vacuously to v0's function so that the library accepts them.
    explicit: dict i -> update function text replacing fi(...).  implicit: variables with no function line."""
    names = [f'v{i}' for i in range(n)]
    regs = regs or {}
    lines = []
    for t in range(n):
        for s in range(n):
            a = regs.get((s, t), '-??')
            if a is not None: lines.append(f'{names[s]} {a} {names[t]}')
    argl = ', '.join(names)
    first = min(i for i in range(n) if i not in implicit)
    for i, t in enumerate(names):
        if i in implicit: continue
        f = (explicit or {}).get(i, f'f{i}({argl})')
        if i == first:
            for w in wild: f += f' | ({w}({argl}) & !{w}({argl}))'
            for g in zero: f += f' | ({g} & !{g})'
        lines.append(f'${t}: {f}')
    return '\n'.join(lines) + '\n'

# ------------------------------------------------------------------ BDD -> z3
class Decoded:
    """variables and helper terms of one native 'mc' answer"""
    def __init__(self, ans, tag=''):
        self.ans = ans
        self.names = ans['vars']
        self.X = [z3.Bool(tag + nm) for nm in self.names]
        self.state = ans['state']; self.params = ans['params']; self.extra = ans['extra']
        self.n = len(self.state)
        self.netvars = ans['netvars']
        self._cache = {}
        self.unit = self.bdd(ans['unit'])
        self.fn_update = [self.bdd(b) for b in ans['fn_update']]
        self._at = {}
    def bdd(self, s):
        if s in self._cache: return self._cache[s]
        nodes = [tuple(map(int, t.split(','))) for t in s.strip().strip('|').split('|')]
        memo = {0: S.FALSE, 1: S.TRUE}
        for i, (v, lo, hi) in enumerate(nodes):
            if i < 2: continue
            memo[i] = z3.If(self.X[v], memo[hi], memo[lo])
        r = memo[len(nodes) - 1] if len(nodes) > 1 else S.FALSE
        self._cache[s] = r
        return r
    def bdd_size(self, s): return s.count('|') - 1
    def at_state(self, term, s):
        """substitute the state variables by the constants of state s (bit i = network variable i)"""
        sub = [(self.X[self.state[i]], z3.BoolVal(bool((s >> i) & 1))) for i in range(self.n)]
        return z3.simplify(z3.substitute(term, *sub))
    def state_is(self, s):
        return z3.And(*[self.X[self.state[i]] == z3.BoolVal(bool((s >> i) & 1)) for i in range(self.n)])
    def kripke(self, ctx_terms=None, self_loops=True):
        """Kripke structure of the generic colour: T_i(s) = f_i(s) xor s_i, with f_i the library's symbolic update fn"""
        def trans(i, s):
            key = (i, s)
            if key not in self._at:
                fi = self.at_state(self.fn_update[i], s)
                self._at[key] = z3.simplify(z3.Xor(fi, z3.BoolVal(bool((s >> i) & 1))))
            return self._at[key]
        wc = {}
        def wild(label, s):
            key = (label, s)
            if key not in wc: wc[key] = self.at_state(ctx_terms[label], s)
            return wc[key]
        return S.Kripke(self.n, self.netvars, trans, wild, self_loops)
    def sem_term(self, per_state):
        """dict state -> Bool  ==>  one Bool over the state variables"""
        return z3.Or(*[z3.And(self.state_is(s), per_state[s]) for s in range(1 << self.n)])

class Verdict:
    def __init__(self, status, model=None, seconds=0.0, note=''):
        self.status, self.model, self.seconds, self.note = status, model, seconds, note
    def __repr__(self): return f'<{self.status} {self.seconds:.2f}s {self.note}>'

CROSS = {'rate': 0.0, 'rng': None, 'checked': 0, 'agree': 0, 'skipped': 0, 'disagree': []}

def cross_check(s, verdict):
    """re-decide the query with cvc5 and the system z3 4.8.12 on the exported SMT-LIB2 text (DESIGN.md 3.8)"""
    import subprocess, tempfile, os
    txt = s.to_smt2()
    if 'set-logic' not in txt: txt = '(set-logic ALL)\n' + txt
    fd, path = tempfile.mkstemp(suffix='.smt2', dir=front.scratch()); os.write(fd, txt.encode()); os.close(fd)
    out = {}
    for name, cmd in (('z3-4.8.12', ['/usr/bin/z3', '-T:60', path]), ('cvc5', ['cvc5', '--lang', 'smt2', '--tlimit=60000', path])):
        try:
            p = subprocess.run(cmd, stdout=subprocess.PIPE, stderr=subprocess.PIPE, text=True, timeout=90)
            lines = [l.strip() for l in p.stdout.split('\n') if l.strip()]
            out[name] = 'error' if any(l.startswith('(error') for l in lines) else (lines[0] if lines else 'none')
        except Exception as e: out[name] = 'timeout'
    os.unlink(path)
    CROSS['checked'] += 1
    answers = [v for v in out.values() if v in ('sat', 'unsat')]
    if not answers: CROSS['skipped'] += 1
    elif all(v == verdict for v in answers): CROSS['agree'] += 1
    else: CROSS['disagree'].append((verdict, out))

def decide(assertions, timeout_ms=120000):
    """sat / unsat / unknown for a conjunction of z3 assertions (fresh solver; statistics returned)"""
    s = z3.Solver(); s.set('timeout', timeout_ms)
    for a in assertions: s.add(a)
    t = time.time(); r = s.check(); dt = time.time() - t
    if CROSS['rate'] and r != z3.unknown and CROSS['rng'].random() < CROSS['rate']: cross_check(s, str(r))
    if r == z3.sat: return Verdict('sat', s.model(), dt)
    if r == z3.unsat: return Verdict('unsat', None, dt)
    return Verdict('unknown', None, dt, s.reason_unknown())

def colour_of_model(dec, model):
    """parameter valuation (dict name -> bool) of a z3 model, completed with False"""
    return {dec.names[i]: bool(z3.is_true(model.eval(dec.X[i], model_completion=True))) for i in dec.params}

def state_of_model(dec, model):
    s = 0
    for i in range(dec.n):
        if z3.is_true(model.eval(dec.X[dec.state[i]], model_completion=True)): s |= 1 << i
    return s

def instantiate(dec, colour, n):
    """fully specified aeon network of a colour: update functions in DNF, read off the library's symbolic functions"""
    names = dec.netvars
    lines = []
    sub = [(dec.X[i], z3.BoolVal(colour[dec.names[i]])) for i in dec.params]
    tt = {}
    for i in range(n):
        fi = z3.substitute(dec.fn_update[i], *sub)
        rows = []
        for s in range(1 << n):
            v = z3.simplify(dec.at_state(fi, s))
            assert z3.is_true(v) or z3.is_false(v), v
            tt[(i, s)] = z3.is_true(v)
            if z3.is_true(v):
                rows.append('(' + ' & '.join((names[j] if (s >> j) & 1 else '!' + names[j]) for j in range(n)) + ')')
        for j in range(n): lines.append(f'{names[j]} -?? {names[i]}')
        lines.append(f'${names[i]}: ' + (' | '.join(rows) if rows else 'false'))
    return '\n'.join(lines) + '\n', tt
