"""C01 - model checking returns exactly the satisfying (state, colour) pairs.  DESIGN.md section 4 / C01."""
import z3
from .. import kernels as KL, unicheck as UC, evaltasks as ET
from ..oracle import sem as S, gen as G

A, B = ('wild', 'a'), ('wild', 'b')
X, XX = ('var', 'x'), ('var', 'xx')

def kernel_part(chk, configs):
    from ..run import run_parallel
    run_parallel(chk, 'hv.props.c01', 'kernel_one', list(configs))

def kernel_one(chk, cfg):
    n, c = cfg
    if True:
        lab = KL.Lab(chk, n, c)
        a, b = lab.set('a'), lab.set('b'); st, cb = lab.steady, lab.cb; wild = {'a': a, 'b': b}
        un = {'not': ('eval_neg', [a]), 'EX': ('eval_ex', [a, st]), 'AX': ('eval_ax', [a, st]), 'EF': ('eval_ef_saturated', [a, cb]), 'AF': ('eval_af', [a, st, cb]),
              'EG': ('eval_eg', [a, st, cb]), 'AG': ('eval_ag', [a, cb])}
        bi = {'imp': ('eval_imp', [a, b]), 'iff': ('eval_equiv', [a, b]), 'xor': ('eval_xor', [a, b]), 'EU': ('eval_eu_saturated', [a, b, cb]), 'AU': ('eval_au', [a, b, st, cb])}
        twin_of = {'not': 'EX', 'EX': 'AX', 'AX': 'EX', 'EF': 'AF', 'AF': 'EF', 'EG': 'AG', 'AG': 'EG', 'imp': 'iff', 'iff': 'xor', 'xor': 'iff', 'EU': 'AU', 'AU': 'EU'}
        for op, (fn, args) in un.items():
            r = lab.run(fn, args); sp = lab.spec((op, A), wild)
            KL.require(lab, f'{fn} == semantics of {op}', r == sp, ('spec', (op, A)), twin=(r == lab.spec((twin_of[op], A), wild)), impl=r, spec=sp, signature='operator')
        for op, (fn, args) in bi.items():
            r = lab.run(fn, args); sp = lab.spec((op, A, B), wild)
            KL.require(lab, f'{fn} == semantics of {op}', r == sp, ('spec', (op, A, B)), twin=(r == lab.spec((twin_of[op], A, B), wild)), impl=r, spec=sp, signature='operator')

def dispatch_formulas():
    """every operator of the three enums applied to symbolic children (wild-cards), plain and under a binder so that
    the children depend on the state variable; hybrid operators with bodies that depend on variable, state and wild-cards"""
    fs = []
    for u in G.UN: fs.append((u, A))
    for b in G.BIN:
        if b in ('EW', 'AW'): continue     # C13
        fs.append((b, A, B))
    for u in G.UN: fs.append(('bind', 'x', None, (u, ('or', ('and', X, A), B))))
    for b in G.BIN:
        if b in ('EW', 'AW'): continue
        fs.append(('exists', 'x', None, (b, ('and', X, A), ('or', ('not', X), B)) if b not in ('EU', 'AU') else (b, ('or', X, A), ('and', ('not', X), B))))
    fs += [('bind', 'x', None, ('and', X, A)), ('exists', 'x', None, ('and', ('not', X), A)), ('forall', 'x', None, ('or', X, A)),
           ('exists', 'x', None, ('jump', 'x', ('and', A, ('EX', X)))), ('forall', 'x', None, ('jump', 'x', ('or', A, ('AX', ('not', X))))),
           ('bind', 'x', None, ('exists', 'xx', None, ('and', ('jump', 'xx', ('and', A, ('EX', X))), ('not', XX)))),
           ('forall', 'x', None, ('bind', 'xx', None, ('or', ('and', XX, ('EX', X)), A))),
           ('exists', 'x', None, ('exists', 'xx', None, ('exists', 'xxx', None, ('and', ('jump', 'x', ('EX', XX)), ('and', ('jump', 'xx', ('EX', ('var', 'xxx'))), ('and', ('var', 'xxx'), A)))))),
           ('exists', 'x', None, ('bind', 'xx', None, ('AX', X))), ('forall', 'x', None, ('bind', 'xx', None, ('AG', ('EF', X)))), ('bind', 'x', None, ('EX', ('bind', 'xx', None, ('AX', X)))),
           ('true',), ('false',), ('prop', 'v0'), ('not', ('prop', 'v1')), ('bind', 'x', None, X)]
    return fs

def twin_for(phi):
    """a formula with a different meaning (flip one operator), for the reachability twin"""
    flip = {'EX': 'AX', 'AX': 'EX', 'EF': 'AF', 'AF': 'EF', 'EG': 'AG', 'AG': 'EG', 'EU': 'AU', 'AU': 'EU', 'and': 'or', 'or': 'and', 'imp': 'iff', 'iff': 'xor', 'xor': 'iff',
            'bind': 'exists', 'exists': 'forall', 'forall': 'exists', 'EW': 'AW', 'AW': 'EW'}
    op = phi[0]
    if op in flip: return (flip[op],) + phi[1:]
    if op == 'not': return phi[1]
    if op == 'jump': return phi[2]
    if op == 'true': return ('false',)
    if op == 'false': return ('true',)
    return ('not', phi)

def run(chk):
    thorough = chk.tier == 'thorough'
    chk.bounds['families added after seeded changes'] = 'E-UNI also on the one-way instance W2; all 49 unary-operator pairs; plain members of the duplicate families of C04 / C10 / C15 (triple occurrences, scope stacks, siblings, two depths, swapped two-variable duplicates); batches of three formulas of different heights through the four plain multi-formula entry points'
    configs = [(2, 0), (2, 1)] + ([(3, 0), (3, 1)] if thorough else [(3, 0)])
    chk.bounds.update({'E-MIR kernels': f'(n, colour bits) in {configs}; all transition systems, all unit sets (products of valid colours), all argument sets',
                       'E-MIR dispatch': 'the string entry point model_check_multiple_extended_formulae executed from MIR (tokenizer .. sanitizing); n=2 (thorough: n=3 for k<=1), children are arbitrary symbolic coloured sets',
                       'loop_unwinding': 'gfp/lfp 2^n+2, saturation 2^(n(1+k)+c)+2; unwinding assertions discharged on every path',
                       'E-UNI': 'formulas of depth <= 2 (core) and seed-chosen depth 3-4 with <= 3 nested variables on instances U2, C2, M2 (thorough: U3 shallow)',
                       'outside': 'networks with more than 3 variables are covered only through the inductive argument (operators + dispatch) under the library model'})
    chk.assumptions += ['E-MIR: bit-vector model of the biodivine libraries (DESIGN.md 3.4); attractor search by contract stub', 'HashMap/HashSet iteration in insertion order (all orders are explored in C04)']
    from .. import conformance
    from ..run import guard as _guard
    _guard(chk, 'library-model conformance', conformance.run, chk, 2, 1); _guard(chk, 'library-model conformance', conformance.run, chk, 3, 0, samples=2)
    kernel_part(chk, configs)
    fs = dispatch_formulas()
    tasks = []
    for f in fs:
        k = S.quant_depth(f)
        tasks.append({'n': 2, 'k': k, 'c': 0, 'entry': 'multi_ext', 'phis': [f], 'twin': [twin_for(f)]})
    for f in fs[::3 if not thorough else 1]:
        k = S.quant_depth(f)
        if k <= 1: tasks.append({'n': 2, 'k': k, 'c': 1, 'entry': 'multi_ext_dirty', 'phis': [f]})
    if thorough:
        for f in fs:
            if S.quant_depth(f) <= 1 and not (S.quant_depth(f) == 1 and S.ops_used(f) & {'EF', 'AG', 'EU', 'AF', 'EG', 'AU'}):
                tasks.append({'n': 3, 'k': S.quant_depth(f), 'c': 0, 'entry': 'multi_ext', 'phis': [f]})
    ET.run_tasks(chk, 'C01', tasks)
    # end to end on the real libraries
    core = G.core_plain(['v0', 'v1'])
    rnd = [G.random_formula(chk.rng, chk.rng.choice([3, 4]), ['v0', 'v1'], ops_bin=[b for b in G.BIN if b not in ('EW', 'AW')]) for _ in range(150 if thorough else 25)]
    entries = ('formula', 'formula_dirty', 'tree', 'tree_dirty', 'multi', 'trees_dirty')
    fam = [(['U2', 'C2'] + (['M2'] if thorough else []), core + rnd)]
    if thorough:
        core3 = [f for f in G.core_plain(['v0', 'v2']) if S.depth(f) <= 2 and S.quant_depth(f) <= 1]
        fam.append((['U3'], core3))
    else:
        fam.append((['M2'], core[::4]))
    # a network with an input variable, an uninterpreted and an explicit function under activation / inhibition constraints;
    # a network whose transition structure is fully specified
    core3i = [f for f in G.core_plain(['v0', 'v2']) if S.depth(f) <= 3 and S.quant_depth(f) <= 1]
    fam.append((['I3'], core3i if thorough else core3i[::2]))
    fam.append((['F2'], core if thorough else core[::3]))
    # formulas whose sub-formulas repeat (cache hits with renaming, siblings, the same shape at two depths): plain members
    # of the families built for C04 / C10 / C15 -- the result must still be the semantics of the formula
    from . import c04, c10
    dup = [f for f in c04.triple_family() + c04.scope_family() + G.siblings(['v0', 'v1']) + c10.two_depths() if not (S.labels(f)[0] | S.labels(f)[1])]
    fam.append((['U2'], dup if thorough else dup[::2]))
    fam.append((['U2', 'W2'], G.unary_pairs(['v0', 'v1']) + G.swapped_duplicates()))
    fam.append((['U2'], G.temporal_over_binders(['v0', 'v1']) + [f for f in dispatch_formulas() if not (S.labels(f)[0] | S.labels(f)[1])]))
    UC.run_family(chk, 'C01', fam, entries=entries)
    # the multi-formula entry points: the i-th result is the semantics of the i-th formula, whatever the order of heights
    P0, P1, X = ('prop', 'v0'), ('prop', 'v1'), ('var', 'x')
    batches = [[('bind', 'x', None, ('AG', ('EF', X))), P0, ('EX', ('not', P1))], [P1, ('EF', ('AX', P0)), ('not', P0)], [('AU', P0, ('EX', P1)), ('exists', 'x', None, ('jump', 'x', ('AX', X))), ('AX', P1)]]
    for inst in UC.instances(['U2']):
        for batch in batches:
            ents = ('multi', 'multi_dirty', 'trees', 'trees_dirty')
            sess = UC.Session(inst, 1, [{'phis': batch, 'entry': e} for e in ents])
            for e, r in zip(ents, sess.runs):
                tag = f'C01/E-UNI {inst.name} model_check_{e} [' + ' ; '.join(S.show(f) for f in batch) + ']'
                if 'ok' not in r or len(r['ok']) != len(batch):
                    chk.obligation(tag, 'E-UNI', 'violated'); chk.violation(tag, 'error-on-valid-input', {'instance': inst.name, 'aeon': inst.aeon, 'batch': [S.show(f) for f in batch], 'answer': {k_: v_ for k_, v_ in r.items() if k_ != 'ok'}}, 'batch evaluation failed or returned a different number of results'); continue
                for pos, f in enumerate(batch):
                    UC.check_equiv(chk, 'C01', sess, f, r['ok'][pos], f'{tag} position {pos} == semantics of its formula', 'semantics', rdec=sess.dec_for(ents.index(e)))
    # bounded-exhaustive small plain formulas (thorough: every formula with <= 4 nodes; quick: a seed-chosen sample incl. size 5)
    kw = dict(wild=(), doms=(None,), un=('not', 'EX', 'AX', 'EF', 'AG', 'EG', 'AF'), bins=('and', 'or', 'EU', 'AU'), props=('v0', 'v1'))
    small = [f for sz in (2, 3, 4) for f in G.enumerate_formulas(sz, **kw)] if thorough else G.sample_small(chk.rng, 240, sizes=(3, 4, 5), **kw)
    chk.bounds['E-UNI sweep'] = f'{len(small)} plain formulas over a reduced alphabet: ' + ('every formula with <= 4 nodes' if thorough else 'seed-chosen sample of the formulas with 3..5 nodes')
    UC.sweep(chk, 'C01', small, which=('U2', 'C2') if thorough else ('U2',), entry='formula_dirty')

