"""C10 - pre-computed results can be substituted for closed sub-formulae.  DESIGN.md section 4 / C10."""
import z3
from .. import unicheck as UC, evaltasks as ET, uni
from ..oracle import sem as S, gen as G

P0, P1 = ('prop', 'v0'), ('prop', 'v1')
X, XX = ('var', 'x'), ('var', 'xx')
W = ('wild', 'w')

def closed_positions(phi):
    out = []
    for path, sub in G.positions(phi):
        if path and not S.free_vars(sub) and sub[0] not in ('true', 'false', 'prop', 'wild'): out.append((path, sub))
    return out

def base_formulas():
    attr = ('bind', 'x', None, ('AG', ('EF', X)))
    return [('EF', ('and', ('AX', P0), ('EG', P1))), ('bind', 'x', None, ('EU', ('or', X, ('EX', P0)), ('AG', P1))), ('and', attr, ('EX', ('not', attr))),
            ('exists', 'x', None, ('and', ('jump', 'x', ('AX', X)), ('EF', ('bind', 'xx', None, ('AX', XX))))), ('AU', ('EX', P0), ('or', ('AG', P1), ('EF', ('and', P0, P1)))),
            ('bind', 'x', 'd', ('and', ('EX', X), ('AF', ('bind', 'xx', None, ('EX', XX))))), ('forall', 'x', None, ('imp', ('EF', X), ('AG', ('EX', P1)))),
            ('iff', ('EX', W), ('AX', ('EF', W))), ('exists', 'x', 'd', ('or', ('jump', 'x', ('EG', P0)), ('AF', ('AG', P0)))),
            # the same closed sub-formula inside and outside a restricted scope (first occurrence inside)
            ('and', ('not', ('exists', 'x', 'd', ('jump', 'x', ('EF', P0)))), ('exists', 'x', None, ('jump', 'x', ('EF', P0)))),
            ('or', ('bind', 'x', 'd', ('and', ('AX', ('EX', P1)), X)), ('AX', ('EX', P1))),
            ('and', ('exists', 'x', None, ('jump', 'x', ('AG', P1))), ('forall', 'x', 'd', ('jump', 'x', ('AG', P1))))] + patterns_in_scopes() + many_occurrences() + two_depths()

def patterns_in_scopes():
    """the two recognised patterns as the replaced closed sub-formula, inside a restricted scope, directly or under | EX EF EU"""
    FP = ('bind', 'xx', None, ('AX', XX)); AT = ('bind', 'xx', None, ('AG', ('EF', XX)))
    out = []
    for pat in (FP, AT):
        out += [('bind', 'x', 'd', ('EF', pat)), ('exists', 'x', 'd', ('or', ('jump', 'x', P0), ('EX', pat))), ('bind', 'x', 'd', ('EU', ('not', X), pat)), ('forall', 'x', 'd', pat)]
    return out

def many_occurrences():
    """one closed sub-formula at >= 4 places: twice below the same operator inside a restricted scope whose variable it does
    not contain, then again outside the scope (before / after it in evaluation order)"""
    out = []
    for psi in (('EX', P1), ('bind', 'x', None, ('AX', X))):
        inner = S_shift(psi, 1)
        out.append(('and', ('bind', 'x', 'd', ('and', ('AX', inner), ('EF', ('AX', inner)))), ('or', psi, ('EF', psi))))
        out.append(('and', ('or', psi, ('EF', psi)), ('exists', 'x', 'd', ('or', ('jump', 'x', ('AX', inner)), ('EF', ('AX', inner))))))
    return out

def two_depths_n1():
    """two_depths() over the single proposition v0 (evaluated on one-variable networks, where k = 3 is cheap)"""
    def go(f):
        if f == P1: return P0
        if f[0] in ('true', 'false', 'prop', 'var', 'wild'): return f
        if f[0] == 'jump': return ('jump', f[1], go(f[2]))
        if f[0] in S.QUANT: return (f[0], f[1], f[2], go(f[3]))
        return (f[0],) + tuple(go(c) for c in f[1:])
    return [go(f) for f in two_depths()]

def two_depths():
    """a sub-formula with one free variable that contains a closed sub-formula with its own variable, at two nesting depths
    one level apart (x/xx versus xx/xxx): cached results are renamed through a multi-entry map"""
    XXX = ('var', 'xxx')
    Pd2 = ('bind', 'xx', None, ('EX', ('and', ('not', XX), P0))); Pd3 = ('bind', 'xxx', None, ('EX', ('and', ('not', XXX), P0)))
    return [('and', ('bind', 'x', None, ('EF', ('and', X, Pd2))), ('exists', 'x', None, ('bind', 'xx', None, ('and', ('jump', 'x', ('not', P1)), ('EF', ('and', XX, Pd3)))))),
            ('or', ('exists', 'x', None, ('bind', 'xx', None, ('and', ('jump', 'x', P1), ('EF', ('and', XX, Pd3))))), ('bind', 'x', None, ('EF', ('and', X, Pd2))))]

def S_shift(phi, d):
    """rename the quantifiers of a closed formula as if it sat below d enclosing quantifiers"""
    def go(f):
        op = f[0]
        if op == 'var': return ('var', f[1] + 'x' * d)
        if op in ('true', 'false', 'prop', 'wild'): return f
        if op == 'jump': return ('jump', f[1] + 'x' * d, go(f[2]))
        if op in S.QUANT: return (op, f[1] + 'x' * d, f[2], go(f[3]))
        return (op,) + tuple(go(c) for c in f[1:])
    return go(phi)

def all_occurrences(phi, sub):
    """positions of the closed sub-formula, up to the depth-dependent names of its own quantifiers"""
    ns = S.normalise(sub)
    return [path for path, s_ in G.positions(phi) if path and not S.free_vars(s_) and s_[0] not in ('true', 'false', 'prop', 'wild') and S.normalise(s_) == ns]

def run(chk):
    thorough = chk.tier == 'thorough'
    chk.bounds['families added after seeded changes'] = 'one closed sub-formula at >= 4 places across a restricted scope (occurrences matched up to the names of its own quantifiers); a one-free-variable sub-formula with a bound variable at two depths (quick: one-variable networks, k = 3; thorough: two variables), three iteration-order policies, five repeated native evaluations; the two recognised patterns replaced in place inside restricted scopes; label names that are reserved words (1, true, False, 0, EX, V)'
    chk.bounds.update({'E-MIR': 'n=2, k<=2: eval through the extended string entry point from MIR with %p_i% bound to the raw result (a solver term) of the replaced closed sub-formula, 1-2 simultaneous replacements; plain formulas through the extended entry point with an empty context',
                       'E-UNI': 'instances U2, C2, M2: context sets produced by model_check_extended_formula_dirty itself; miter between C[psi] and C[%p%]',
                       'outside': 'benchmark-size networks (the thorough tier only reports a miter on the bundled 13-variable model as beyond-bound evidence)'})
    tasks = []; rng = chk.rng
    td = two_depths()
    for phi in base_formulas() + two_depths_n1():
        n_ = 1 if phi in two_depths_n1() else 2
        if phi in td and not thorough: continue      # k = 3 on two variables: ~90 s per task, thorough tier only (quick: one variable)
        pos = closed_positions(phi)
        rng.shuffle(pos)
        if phi in patterns_in_scopes(): pos.sort(key=lambda ps: not (ps[1][0] == 'bind' and ps[1][1] == 'xx'))      # replace the pattern itself
        k = S.quant_depth(phi) or 1
        for (path, sub) in pos[:3 if thorough else 1]:
            sub_phi = G.replace(phi, path, ('wild', 'q1'))
            tasks.append({'n': n_, 'k': k, 'c': 0, 'entry': 'multi_ext_dirty', 'phis': [phi], 'texts': [S.show(sub_phi)], 'ctx_formulas': {'q1': sub}, 'extra_labels': sorted(S.labels(phi)[0] | S.labels(phi)[1])})
        # every occurrence of one closed sub-formula replaced by the SAME wild-card (inside and outside restricted scopes);
        # the sub-formulas with the most occurrences first
        seen = []; special = phi in many_occurrences() or phi in two_depths() or n_ == 1
        for (path, sub) in sorted(pos, key=lambda ps: -len(all_occurrences(phi, ps[1]))):
            occ = all_occurrences(phi, sub)
            if len(occ) >= 2 and S.normalise(sub) not in seen and len(seen) < (2 if special or thorough else 1):
                seen.append(S.normalise(sub))
                sub_phi = phi
                for pth in occ: sub_phi = G.replace(sub_phi, pth, ('wild', 'q1'))
                t = {'n': n_, 'k': k, 'c': 0, 'entry': 'multi_ext_dirty', 'phis': [phi], 'texts': [S.show(sub_phi)], 'ctx_formulas': {'q1': S.normalise(sub)}, 'extra_labels': sorted(S.labels(phi)[0] | S.labels(phi)[1])}
                tasks.append(t)
                if phi in two_depths() or n_ == 1:
                    # the plain formula itself, under every iteration-order policy of the renaming maps
                    tasks.append({'n': n_, 'k': k, 'c': 0, 'entry': 'multi_ext_dirty', 'phis': [phi], 'order_mode': 'global'})
        # two simultaneous, non-overlapping replacements
        for (p1, s1) in pos:
            done = False
            for (p2, s2) in pos:
                if p1 != p2 and p1[:len(p2)] != p2 and p2[:len(p1)] != p1:
                    sub_phi = G.replace(G.replace(phi, p1, ('wild', 'q1')), p2, ('wild', 'q2'))
                    tasks.append({'n': n_, 'k': k, 'c': 0, 'entry': 'multi_ext_dirty', 'phis': [phi], 'texts': [S.show(sub_phi)], 'ctx_formulas': {'q1': s1, 'q2': s2}, 'extra_labels': sorted(S.labels(phi)[0] | S.labels(phi)[1])})
                    done = True; break
            if done: break
    # plain formulas: extended entry points with an empty context == plain entry points (both == semantics)
    for phi in [f for f in base_formulas() if not (S.labels(f)[0] | S.labels(f)[1])][:5 if thorough else 3]:
        k = S.quant_depth(phi) or 1
        tasks.append({'n': 2, 'k': k, 'c': 0, 'entry': 'multi_ext', 'phis': [phi]}); tasks.append({'n': 2, 'k': k, 'c': 0, 'entry': 'multi', 'phis': [phi]})
        tasks.append({'n': 2, 'k': k, 'c': 0, 'entry': 'formula_dirty', 'phis': [phi]}); tasks.append({'n': 2, 'k': k, 'c': 0, 'entry': 'ext_dirty', 'phis': [phi]})
    ET.run_tasks(chk, 'C10', tasks, signature='substitution')
    e_uni(chk, thorough)
    if thorough: beyond_bound(chk)

def e_uni(chk, thorough):
    rng = chk.rng
    forms = base_formulas() + [G.random_formula(rng, 4, ['v0', 'v1'], wild=('w',), doms=('d',)) for _ in range(60 if thorough else 12)]
    for inst in UC.instances(['U2', 'C2'] + (['M2'] if thorough else [])):
        for phi in forms:
            pos = closed_positions(phi)
            if not pos: continue
            rng.shuffle(pos)
            if phi in patterns_in_scopes(): pos.sort(key=lambda ps: not (ps[1][0] == 'bind' and ps[1][1] == 'xx'))
            dup = [x for x in pos if len(all_occurrences(phi, x[1])) >= 2]
            if dup: pos = dup + [x for x in pos if x not in dup]
            chosen = [pos[0]]
            for (p2, s2) in pos[1:]:
                if all(p[:len(p2)] != p2 and p2[:len(p)] != p for p, _ in chosen) and len(chosen) < 2: chosen.append((p2, s2))
            sub_phi = phi; extra = {}
            # label names: ordinary ones and every reserved word of the formula language (inside %..% they are just names)
            fi = forms.index(phi)
            LB = [['q0', 'q1'], ['1', 'true'], ['False', '0'], ['false', 'True'], ['EX', 'V'], ['q0', 'q1']][fi % 6 if fi < 24 else 0]
            occ = all_occurrences(phi, chosen[0][1])
            if len(occ) >= 2:
                chosen = [chosen[0]]
                for pth in occ: sub_phi = G.replace(sub_phi, pth, ('wild', LB[0]))
                extra[LB[0]] = {'t': 'mc', 'f': S.show(S.normalise(chosen[0][1]))}
            else:
              for i, (p, s) in enumerate(chosen):
                sub_phi = G.replace(sub_phi, p, ('wild', LB[i])); extra[LB[i]] = {'t': 'mc', 'f': S.show(s)}
            k = S.quant_depth(phi) or 1
            reps = 4 if phi in two_depths() else 0     # renaming maps iterate in a per-map random order: repeat the plain evaluation
            try: sess = UC.Session(inst, k, [{'phis': [phi], 'entry': 'ext_dirty'}, {'phis': [sub_phi], 'entry': 'ext_dirty'}, {'phis': [sub_phi], 'entry': 'ext'}] + [{'phis': [phi], 'entry': 'ext_dirty'}] * reps, extra_ctx=extra)
            except RuntimeError as e:
                chk.obligation(f'C10/E-UNI {inst.name}: {S.show(sub_phi)}', 'E-UNI', 'inconclusive'); continue
            name = f'C10/E-UNI {inst.name} k={k}: {S.show(phi)}  ==  {S.show(sub_phi)} with ' + ', '.join(f'%{LB[i]}% := raw result of {S.show(s)}' for i, (p, s) in enumerate(chosen))
            a, b = sess.first(0), sess.first(1)
            if reps:
                same = all(sess.first(3 + i_) == a for i_ in range(reps))
                nm_ = f'C10/native {inst.name}: {reps + 1} evaluations of {S.show(phi)} return the same BDD'
                chk.obligation(nm_, 'native', 'holds' if same else 'violated', 0.0, False)
                if not same:
                    chk.violation(nm_, 'unstable', {'instance': inst.name, 'aeon': inst.aeon, 'formula': S.show(phi)}, 'repeated evaluations of the same formula give different sets (iteration order of a hash map)')
                    for i_ in range(reps):
                        if sess.first(3 + i_) != a and sess.first(3 + i_) is not None: UC.check_equiv(chk, 'C10', sess, phi, sess.first(3 + i_), name + f' [repeat {i_} == semantics]', 'substitution')
            if a is None or b is None:
                chk.obligation(name, 'E-UNI', 'violated'); chk.violation(name, 'substitution-error', {'instance': inst.name, 'aeon': inst.aeon, 'answers': sess.runs}, f'evaluation failed: {sess.runs}'); continue
            v = uni.decide([sess.dec.unit, sess.dec.bdd(a) != sess.dec.bdd(b)]); chk.queries += 1
            if v.status == 'unsat':
                chk.obligation(name, 'E-UNI', 'holds', v.seconds, True, {'formula': S.show(phi), 'substituted': S.show(sub_phi), 'instance': inst.name, 'verdict': 'unsat (BDD miter)'})
            elif v.status == 'sat':
                # which side is wrong?  compare the original with the semantics; the substituted one inherits it
                if UC.check_equiv(chk, 'C10', sess, phi, a, name + ' [original == semantics]', 'substitution'):
                    UC.confirm(chk, 'C10', sess, phi, b, v.model, name, 'substitution')
            else: chk.obligation(name, 'E-UNI', 'timeout', v.seconds)
            if sess.first(2) is None:
                chk.obligation(name + ' [sanitised entry point]', 'E-UNI', 'violated'); chk.violation(name + ' [sanitised entry point]', 'substitution-error', {'instance': inst.name, 'aeon': inst.aeon, 'formula': S.show(sub_phi), 'answer': sess.runs[2]}, f'sanitising entry point fails on {S.show(sub_phi)}: {sess.runs[2]}')
            else: UC.check_equiv(chk, 'C10', sess, phi, sess.first(2), name + ' [sanitised entry point == semantics]', 'substitution', rdec=sess.dec_plain)
    # plain formula through extended entry points with an empty context
    for inst in UC.instances(['U2', 'M2']):
        plain = [f for f in forms if not (S.labels(f)[0] | S.labels(f)[1])][:20 if thorough else 6]
        for phi in plain:
            k = S.quant_depth(phi) or 1
            sess = UC.Session(inst, k, [{'phis': [phi], 'entry': e} for e in ('formula_dirty', 'ext_dirty', 'formula', 'ext', 'multi_dirty', 'ext_multi_dirty')])
            bs = [sess.first(i) for i in range(6)]
            name = f'C10/E-UNI {inst.name}: plain and extended entry points (empty context) return the same BDD for {S.show(phi)}'
            ok = bs[0] == bs[1] == bs[4] == bs[5] and bs[2] == bs[3] and None not in bs
            if ok: chk.obligation(name, 'E-UNI', 'holds', 0.0, True, {'formula': S.show(phi), 'claim': 'identical BDD strings from model_check_formula(_dirty) and model_check_extended_formula(_dirty) with an empty context'})
            else:
                chk.native_replays += 1; chk.obligation(name, 'E-UNI', 'violated')
                chk.violation(name, 'plain-vs-extended', {'instance': inst.name, 'aeon': inst.aeon, 'formula': S.show(phi), 'bdds': bs}, 'plain and extended entry points disagree on ' + S.show(phi))
            UC.check_equiv(chk, 'C10', sess, phi, bs[1], name + ' [== semantics]', 'substitution') if bs[1] else None


def beyond_bound(chk):
    """native only (no solver, outside the claim): substitution on the bundled 13-variable model, BDD strings compared"""
    import os
    from .. import front
    path = os.path.join(front.REPO, 'test', 'model-010-13var-2in.aeon')
    if not os.path.exists(path): return
    aeon = open(path).read()
    cases = [('EF (v_Mesp1 & (AG ~v_Isl1))', 'AG ~v_Isl1', 'EF (v_Mesp1 & %p%)'), ('!{x}: AG EF {x} & (EF (!{y}: AX {y}))', '!{y}: AX {y}', '!{x}: AG EF {x} & (EF %p%)'),
             ('(3{x}: @{x}: AX {x}) | ~(EF (!{y}: AG EF {y}))', '!{y}: AG EF {y}', '(3{x}: @{x}: AX {x}) | ~(EF %p%)')]
    for full, psi, sub in cases:
        job = {'op': 'mc', 'aeon': aeon, 'k': 2, 'context': {'p': {'t': 'mc', 'f': psi}}, 'context_order': ['p'], 'runs': [{'entry': 'ext_dirty', 'formulas': [full]}, {'entry': 'ext_dirty', 'formulas': [sub]}]}
        ans = front.native([job], timeout=900)[0]
        name = f'C10/native (beyond the bound, 13-variable bundled model): {full}  ==  {sub} with %p% := raw result of {psi}'
        if 'fatal' in ans or 'fatal_panic' in ans: chk.obligation(name, 'native (beyond bound)', 'inconclusive'); continue
        a, b = ans['runs'][0].get('ok'), ans['runs'][1].get('ok')
        if a is not None and a == b: chk.obligation(name, 'native (beyond bound)', 'holds', 0.0, False, {'claim': 'identical BDDs', 'bdd_nodes': a.count('|') - 1})
        else:
            chk.obligation(name, 'native (beyond bound)', 'violated'); chk.violation(name, 'substitution-13var', {'model': 'test/model-010-13var-2in.aeon', 'formula': full, 'substituted': sub, 'psi': psi}, 'substituted and original formula give different BDDs on the bundled model')
