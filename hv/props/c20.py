"""C20 - the answer for a colour equals the answer on the network instantiated by that colour.  DESIGN.md 4 / C20."""
import z3
from .. import unicheck as UC, kernels as KL, uni, front, replay as RP
from ..oracle import sem as S, gen as G
from ..mirsym import biomodel, merge

P0, P1 = ('prop', 'v0'), ('prop', 'v1')
X = ('var', 'x')

def non_interference(chk, n, loops=True):
    """E-MIR: two colours; the slice of every kernel result at colour 0 does not depend on the inputs at colour 1"""
    labA = KL.Lab(chk, n, 1, tag='L_'); labB = KL.Lab(chk, n, 1, tag='R_')
    MA, MB = labA.M, labB.M
    a1, b1 = labA.set('a'), labA.set('b'); a2, b2 = labB.set('a'), labB.set('b')
    half = MA.NS // 2; lowmask = z3.BitVecVal((1 << half) - 1, MA.NS)
    low = lambda x: z3.Extract(half - 1, 0, x)
    pre = labA.pre + labB.pre + [low(MA.T[i]) == low(MB.T[i]) for i in range(n)] + [low(a1) == low(a2), low(b1) == low(b2), z3.Extract(0, 0, labA.U) == z3.Extract(0, 0, labB.U)]
    kern = [('eval_ex', lambda L, a, b: [a, L.steady]), ('eval_ax', lambda L, a, b: [a, L.steady]), ('eval_ef_saturated', lambda L, a, b: [a, L.cb]), ('eval_eg', lambda L, a, b: [a, L.steady, L.cb]),
            ('eval_af', lambda L, a, b: [a, L.steady, L.cb]), ('eval_ag', lambda L, a, b: [a, L.cb]), ('eval_eu_saturated', lambda L, a, b: [a, b, L.cb]), ('eval_au', lambda L, a, b: [a, b, L.steady, L.cb]),
            ('eval_ew', lambda L, a, b: [a, b, L.steady, L.cb]), ('eval_aw', lambda L, a, b: [a, b, L.cb]), ('eval_neg', lambda L, a, b: [a]), ('eval_imp', lambda L, a, b: [a, b])]
    for name, mk in kern:
        if not loops and name not in ('eval_ex', 'eval_ax', 'eval_neg', 'eval_imp'): continue
        r1 = labA.run(name, mk(labA, a1, b1)); r2 = labB.run(name, mk(labB, a2, b2))
        v = uni.decide(pre + [low(r1) != low(r2)], 120000); chk.queries += 1
        tv = uni.decide(pre + [r1 != r2], 120000); chk.twin(tv.status == 'sat')
        full = f'C20/E-MIR non-interference: {name} at colour 0 is independent of T and argument sets at colour 1 [n={n}]'
        if v.status == 'unsat': chk.obligation(full, 'E-MIR/merge', 'holds', v.seconds, tv.status == 'sat', {'function': name, 'claim': 'two executions that agree on colour 0 give results that agree on colour 0', 'verdict': 'unsat'})
        elif v.status == 'unknown': chk.obligation(full, 'E-MIR/merge', 'timeout', v.seconds)
        else: chk.obligation(full + ' (interference in the model; E-UNI decides on the real code)', 'E-MIR/merge', 'inconclusive', v.seconds)

def run(chk):
    thorough = chk.tier == 'thorough'
    chk.bounds['families added after seeded changes'] = 'per formula the colours instantiated natively start with the extreme ones (one update function constant true / false), then solver-chosen structurally distinct ones; formulas whose operands partition the state space along one variable'
    chk.bounds.update({'E-UNI': 'instances U2, C2, M2 (thorough: U3 shallow): result(state, colour) == explicit semantics on the transition system of that colour, for every colour; then up to 6 (thorough 20) structurally distinct colours per formula are instantiated and model_check_formula is run natively on the fully specified network',
                       'E-MIR': 'colour non-interference of the kernels with one colour bit, n = 2 (thorough: n = 3 for the loop-free kernels; the n = 3 loop kernels took > 30 min and are not run)', 'outside': 'benchmark models with thousands of colours'})
    from ..run import guard
    guard(chk, 'C20/E-MIR colour non-interference n=2', non_interference, chk, 2)
    if thorough: guard(chk, 'C20/E-MIR colour non-interference n=3', non_interference, chk, 3, loops=False)
    core = G.core_plain(['v0', 'v1'])
    rnd = [G.random_formula(chk.rng, 3, ['v0', 'v1']) for _ in range(60 if thorough else 10)]
    # extended formulas with colour-dependent context sets (d is empty for some colours only, e for the others)
    X = ('var', 'x'); W = ('wild', 'w')
    ext = [('forall', 'x', 'd', ('jump', 'x', ('AX', X))), ('exists', 'x', 'd', ('EF', X)), ('bind', 'x', 'd', ('EX', ('or', X, W))), ('forall', 'x', 'e', ('or', ('EF', X), W)),
           ('and', ('forall', 'x', 'd', ('EX', X)), ('not', ('exists', 'x', 'e', ('AX', X)))), ('EU', W, ('forall', 'x', 'd', ('jump', 'x', P0)))]
    # domains that project to ONE state and are present for some colours only
    ext += [('exists', 'x', 's1', ('jump', 'x', ('EF', P0))), ('forall', 'x', 's1', ('jump', 'x', ('AX', P1))), ('bind', 'x', 's1', ('EX', X)), ('exists', 'x', 's1', ('EF', X)),
            ('and', ('exists', 'x', 's1', ('jump', 'x', ('EX', X))), ('not', ('forall', 'x', 's0', ('jump', 'x', P0))))]
    # operands that partition the state space along one variable (no transition of that variable ends inside the left operand)
    ext += [(b, ('not', P0), P0) for b in ('EU', 'AU', 'EW', 'AW')] + [('EU', P1, ('not', P1)), ('bind', 'x', None, ('EX', ('EU', ('not', X), X))), ('EF', ('and', P0, P1)), ('AG', ('or', ('not', P0), P1))]
    forms = ext + core[::1 if thorough else 2] + rnd
    ncol = 20 if thorough else 5
    for inst in UC.instances(['U2', 'C2', 'M2', 'I3', 'F2'] + (['U3'] if thorough else [])):
        fs = [f for f in forms if not (S.labels(f)[0] | S.labels(f)[1]) - set(inst.ctx)] if inst.n == 2 else [f for f in G.core_plain(['v0', 'v2']) if S.depth(f) <= (3 if inst.name == 'I3' else 2) and S.quant_depth(f) <= 1]
        for i in range(0, len(fs), 10):
            chunk = fs[i:i + 10]
            k = max(S.quant_depth(f) for f in chunk) or 1
            sess = UC.Session(inst, k, [{'phis': [f], 'entry': 'ext'} for f in chunk])
            dec = sess.dec_plain
            for j, f in enumerate(chunk):
                b = sess.first(j)
                name = f'C20/E-UNI {inst.name}: answer for every colour == semantics on that colour\'s network: {S.show(f)}'
                if b is None:
                    chk.obligation(name, 'E-UNI', 'violated'); chk.violation(name, 'error', {'answer': sess.runs[j]}, 'evaluation failed'); continue
                if not UC.check_equiv(chk, 'C20', sess, f, b, name, 'colour-slice', rdec=dec): continue
                if j % 3 and f not in ext: continue
                # instantiate distinct valid colours and run the real tool on the fully specified networks
                colours = []; block = []
                R = dec.bdd(b)
                pvars = [sess.dec.X[i_] for i_ in sess.dec.params]
                # extreme colours first (one update function constant: that variable moves one way only, so emptiness
                # shortcuts taken over ALL colours behave differently once the other colours are gone), then free ones
                shapes = [[sess.K.trans(i_, s) == z3.BoolVal(((s >> i_) & 1) != bv) for s in range(1 << sess.dec.n)] for i_ in range(sess.dec.n) for bv in (1, 0)]
                for sh in shapes + [[]] * ncol:
                    v = uni.decide([sess.dec.unit] + block + sh, 20000)
                    if v.status != 'sat':
                        if sh: continue
                        break
                    col = {sess.dec.names[i_]: bool(z3.is_true(v.model.eval(sess.dec.X[i_], model_completion=True))) for i_ in sess.dec.params}
                    T, sets, ok = UC.concrete_of_colour(sess, col)
                    # structurally distinct: block this transition relation
                    block.append(z3.Or(*[sess.K.trans(i_, s) != z3.BoolVal(T[(i_, s)]) for i_ in range(sess.dec.n) for s in range(1 << sess.dec.n)]))
                    colours.append((col, T, sets))
                nm = [f'v{i_}' for i_ in range(inst.n)]
                jobs = [{'op': 'mc', 'aeon': RP.concrete_aeon(inst.n, T), 'k': k, 'context': {l: {'t': 'expr', 'e': RP.dnf(nm, st, inst.n)} for l, st in sets.items()},
                         'runs': [{'entry': 'ext', 'formulas': [S.show(f)]}], 'plain': True} for col, T, sets in colours]
                answers = front.native(jobs) if jobs else []
                bad = None
                for (col, T, sets), ans in zip(colours, answers):
                    r = ans['runs'][0]
                    if 'ok' not in r: bad = (col, 'native run failed: ' + str(r)); break
                    nat = RP.states_of(uni.Decoded(ans['plain']), r['ok'])
                    sub = [(sess.dec.X[i_], z3.BoolVal(col[sess.dec.names[i_]])) for i_ in sess.dec.params]
                    sl = {s for s in range(1 << inst.n) if z3.is_true(z3.simplify(sess.dec.at_state(z3.substitute(R, *sub), s)))}
                    chk.native_replays += 1
                    if nat != sl: bad = (col, f'slice of the parametrised result {sorted(sl)} != result on the instantiated network {sorted(nat)}'); break
                nm2 = f'C20/native {inst.name}: slices of {len(colours)} distinct colours == model_check_formula on the instantiated networks: {S.show(f)}'
                if bad:
                    chk.obligation(nm2, 'E-UNI', 'violated'); chk.violation(nm2, 'instantiation', {'instance': inst.name, 'aeon': inst.aeon, 'formula': S.show(f), 'colour': bad[0]}, bad[1])
                else: chk.obligation(nm2, 'E-UNI+native', 'holds', 0.0, len(colours) >= 2, {'formula': S.show(f), 'instance': inst.name, 'colours_instantiated': len(colours)})
