"""C08 - results are invariant under meaning-preserving rewrites of the formula text.  DESIGN.md section 4 / C08."""
from .. import textlab as TL, front, unicheck as UC
from ..oracle import sem as S

AEON = 'v0 -?? v1\nv1 -?? v0\nv0 -?? v0\n'

def native_same_tree(base, text):
    r0, r1 = front.native([{'op': 'text', 'what': 'minimize_ext', 'text': base, 'aeon': AEON}, {'op': 'text', 'what': 'minimize_ext', 'text': text, 'aeon': AEON}])
    if 'ok' not in r0: return [f'base formula {base!r} rejected natively: {r0}']
    if 'ok' not in r1: return [f'rewritten formula {text!r} is rejected ({r1.get("err") or r1.get("panic")}) while {base!r} is accepted']
    if r0['ok'] != r1['ok']: return [f'{text!r} preprocesses to {r1["ok"]["s"]!r} but {base!r} to {r0["ok"]["s"]!r}']
    return []

def _nesting(text):
    """nesting depth of quantifiers in a fully bracketed-by-scope text: counted by the reference parser"""
    from ..oracle import ref
    class _I:            # concrete characters only: no solver needed
        ctx = None
        def truth(self, r): return bool(r)
        def char_pred(self, kind, c):
            ch = chr(c)
            return ch.isspace() if kind == 'ws' else ch.isalnum()
    t = ref.parse(_I(), [ord(c) for c in text], False)
    def names(f): return tuple(''.join(chr(c) for c in x) if isinstance(x, tuple) and x and isinstance(x[0], int) else (names(x) if isinstance(x, tuple) else x) for x in f)
    return S.quant_depth(names(t)) or 1

def run(chk):
    thorough = chk.tier == 'thorough'
    chk.bounds['families added after seeded changes'] = 'native comparison at k = nesting depth through model_check_formula and model_check_formula_dirty, incl. sibling quantifiers renamed to distinct names'
    chk.bounds.update({'E-MIR': '6 base formulas (all operator classes, <= 3 variables, domains, wild-cards, constants); rewrites: 1-2 (thorough 3) symbolic whitespace characters (ASCII + Unicode representatives) at every pair of token boundaries, one redundant parenthesis pair around every sub-formula, every long/short operator spelling combination, the three constant spellings, consistent renaming with symbolic pairwise-distinct names of 1-2 characters',
                       'claim': 'the preprocessed tree of the rewritten text is identical to that of the base text (evaluation is a function of the tree); results are additionally compared natively for concrete variants',
                       'outside': 'formulas beyond the base list'})
    plan = [({'kind': 'minparen'}, 'parentheses that precedence and right-associativity make redundant (every pair of binary operators, unary / hybrid contexts)'), ({'kind': 'paren'}, 'one redundant pair of parentheses around any sub-formula'), ({'kind': 'spell'}, 'long vs short hybrid operators, constant spellings'),
            ({'kind': 'rename', 'len': 1}, 'consistent renaming, symbolic 1-character names'), ({'kind': 'rename', 'len': 2}, 'consistent renaming, symbolic 2-character names'),
            ({'kind': 'ws', 'n': 1}, 'one symbolic whitespace character at any token boundary')]
    if thorough: plan += [({'kind': 'ws', 'n': 2}, 'two symbolic whitespace characters'), ({'kind': 'rename', 'len': 3}, 'renaming with 3-character names')]
    for params, label in plan:
        res, info = TL.explore_parallel('c08', params, budget=40)
        chk.paths += len(res); chk.queries += info['queries']; chk.note_functions(info['functions']); chk.models |= info['models']
        if info['errors']: chk.obligation(f'C08/E-MIR {label} [' + info['errors'][0][:150] + ']', 'E-MIR/fork', 'inconclusive'); continue
        groups = {}
        for r in res: groups.setdefault(r.get('group'), []).append(r)
        for g, rs in sorted(groups.items(), key=lambda kv: str(kv[0])):
            nm = f'C08/E-MIR base formula {g}: {label}: identical preprocessed tree ({len(rs)} paths)'
            bad = [r for r in rs if r.get('ok') is not True]
            seen = set()
            for b in bad[:6]:
                if b.get('text') is None: chk.obligation(nm + ' [' + str(b.get('panic') or b.get('why'))[:100] + ']', 'E-MIR/fork', 'inconclusive'); continue
                if b['text'] in seen: continue
                seen.add(b['text']); chk.native_replays += 1
                diffs = native_same_tree(b['base'], b['text'])
                if diffs: chk.obligation(nm, 'E-MIR/fork', 'violated'); chk.violation(nm, 'rewrite', {'base': b['base'], 'text': b['text'], 'differences': diffs}, '; '.join(diffs)[:500])
                else: chk.obligation(nm + f' (counterexample {b["text"]!r} does not reproduce natively)', 'E-MIR/fork', 'inconclusive')
            if not bad: chk.obligation(nm, 'E-MIR/fork', 'holds', 0.0, len(rs) > 1, {'rewrite': params, 'paths': len(rs)})
    # results of concrete variants on the real libraries
    variants = [('!{a}: AG EF {a}', ['\\bind {zz} :AG  EF({zz})', '(!{x}:(AG (EF ({x}))))', '! {xx}:\tAG\nEF {xx}']),
                ('!{a}: 3{b}: (@{a}: ~{b} & AX {a}) & (@{b}: AX {b})', ['\\bind{xx}: \\exists {x}: (\\jump{xx}: ~{x} & (AX {xx})) & ((@{x}: AX {x}))', '!{b}:3{a}:(@{b}:~{a}&AX{b})&(@{a}:AX{a})']),
                ('V{a}: (v0 EU ({a} | true)) => AF (v1 & false)', ['\\forall {x}: ((v0) EU ({x} | 1)) => (AF (v1 & 0))', 'V{xxx}:(v0 EU({xxx}|True))=>AF(v1&False)'])]
    # sibling quantifiers: renaming may give every occurrence its own name (more names than nesting depth)
    variants += [('(!{x}: AX {x}) | (!{x}: AG EF ({x} & v0))', ['(!{x}: AX {x}) | (!{y}: AG EF ({y} & v0))', '(!{xx}: AX {xx}) | (!{x}: AG EF ({x} & v0))', '(\\bind {a}: AX {a}) | (\\bind {b}: AG EF ({b} & v0))']),
                 ('(3{x}: @{x}: v0) & (V{x}: EF {x}) & (!{x}: EX ~{x})', ['(3{p}: @{p}: v0) & (V{q}: EF {q}) & (!{r}: EX ~{r})']),
                 ('!{x}: (3{xx}: @{xx}: EX {x}) & (V{xx}: EF {xx} | {x})', ['!{a}: (3{b}: @{b}: EX {a}) & (V{c}: EF {c} | {a})', '!{xx}: (3{x}: @{x}: EX {xx}) & (V{xxx}: EF {xxx} | {xx})'])]
    # extended formulas written with NO whitespace wherever the grammar allows none (wild-cards / domains directly after operators)
    ext_variants = [('EF %w% & (v0 EU %w%)', ['EF%w%&(v0 EU%w%)', 'EF %w%&(v0 EU %w%)', 'EF\t%w% &(v0 EU\n%w%)']), ('!{x} in %d%: AX (%w% | {x})', ['!{x}in%d%:AX(%w%|{x})', '!{x} in%d% :AX (%w%|{x})']),
                    ('AG %w% | ~%w% | AX~%w%', ['AG%w%|~%w%|AX~%w%']), ('3{x} in %d%: @{x}: (AX %w% & EG {x})', ['3{x}in%d%:@{x}:(AX%w%&EG{x})'])]
    for inst in UC.instances(['U2']):
        for base, vs in ext_variants:
            sess = UC.Session(inst, 1, [{'formulas': [t], 'entry': 'ext_dirty', 'phis': [('and', ('wild', 'w'), ('bind', 'x', 'd', ('true',)))]} for t in [base] + vs])
            b0 = sess.first(0)
            for t, i in zip(vs, range(1, len(vs) + 1)):
                name = f'C08/native {inst.name}: {t!r} gives the same BDD as {base!r} (model_check_extended_formula_dirty)'
                ok = b0 is not None and sess.first(i) == b0
                chk.obligation(name, 'native', 'holds' if ok else 'violated', 0.0, True, {'base': base, 'variant': t, 'instance': inst.name})
                if not ok: chk.violation(name, 'rewrite-result', {'base': base, 'variant': t, 'instance': inst.name, 'aeon': inst.aeon, 'answers': [{k_: v_ for k_, v_ in sess.runs[j_].items() if k_ != 'ok'} for j_ in (0, i)]}, f'{t!r} and {base!r} evaluate differently ({sess.runs[i].get("err") or sess.runs[i].get("panic") or "different sets"})')
    for inst in UC.instances(['U2', 'C2']):
        for base, vs in variants:
          for entry in ('formula_dirty', 'formula'):
            # exactly as many symbolic variable sets as the nesting depth needs: no spare set hides a naming slip
            sess = UC.Session(inst, _nesting(base), [{'formulas': [t], 'entry': entry, 'phis': []} for t in [base] + vs], plain=(entry == 'formula'))
            b0 = sess.first(0)
            for t, i in zip(vs, range(1, len(vs) + 1)):
                name = f'C08/native {inst.name}: {t!r} gives the same BDD as {base!r} (model_check_{entry}, k = nesting depth)'
                ok = sess.first(i) is not None and sess.first(i) == b0
                chk.obligation(name, 'native', 'holds' if ok else 'violated', 0.0, True, {'base': base, 'variant': t, 'instance': inst.name})
                if not ok: chk.violation(name, 'rewrite-result', {'base': base, 'variant': t, 'instance': inst.name, 'aeon': inst.aeon, 'answers': [sess.runs[0], sess.runs[i]]}, f'{t!r} and {base!r} evaluate differently')
