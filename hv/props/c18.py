"""C18 - the self-loop-free variant agrees with standard evaluation where loops cannot matter.  DESIGN.md 4 / C18."""
import z3
from .. import unicheck as UC, evaltasks as ET, uni
from ..oracle import sem as S, gen as G

P0, P1 = ('prop', 'v0'), ('prop', 'v1')
X, XX = ('var', 'x'), ('var', 'xx')
FORBIDDEN = {'EX', 'AX', 'AF', 'EG', 'AU', 'EW'}
FRAG_UN = ['not', 'EF', 'AG']; FRAG_BIN = ['and', 'or', 'xor', 'imp', 'iff', 'EU', 'AW']

def in_fragment(phi): return not (S.ops_used(phi) & FORBIDDEN)

def core_fragment():
    attr = ('bind', 'x', None, ('AG', ('EF', X)))
    return [('EF', P0), ('AG', ('or', P0, P1)), ('EU', P0, P1), ('AW', P0, P1), ('not', ('EF', ('and', P0, ('not', P1)))), ('bind', 'x', None, ('EF', ('and', ('not', X), P0))),
            ('exists', 'x', None, ('jump', 'x', ('AG', ('EF', X)))), ('forall', 'x', None, ('EU', ('or', X, P0), ('AG', P1))), attr, ('AG', ('imp', P0, ('EF', attr))),
            ('bind', 'x', None, ('exists', 'xx', None, ('and', ('jump', 'xx', ('EF', X)), ('AW', XX, ('EF', ('and', X, P1)))))), ('iff', ('EF', P0), ('EU', ('true',), P0)),
            ('xor', ('AG', P0), ('AW', P0, ('false',)))]

operand_pairs = G.operand_pairs

def core_other():
    return [('EX', P0), ('AX', P0), ('AF', P0), ('EG', P0), ('AU', P0, P1), ('EW', P0, P1), ('bind', 'x', None, ('EX', X)), ('exists', 'x', None, ('jump', 'x', ('AF', ('and', X, P0)))),
            ('AG', ('EX', ('EF', P0))), ('forall', 'x', None, ('AU', ('not', X), ('EG', P1))),
            # near-misses of the fixed-point pattern (binder unused, AX of an outer variable; other quantifiers; nested)
            ('exists', 'x', None, ('bind', 'xx', None, ('AX', X))), ('forall', 'x', None, ('bind', 'xx', None, ('AX', X))), ('exists', 'x', None, ('AX', X)),
            ('bind', 'x', None, ('EX', ('AX', X))), ('bind', 'x', None, ('AX', X)), ('EF', ('bind', 'x', None, ('AX', X)))]

def rename_vars(phi, m):
    op = phi[0]
    if op == 'var': return ('var', m.get(phi[1], phi[1]))
    if op in ('true', 'false', 'prop', 'wild'): return phi
    if op == 'jump': return ('jump', m.get(phi[1], phi[1]), rename_vars(phi[2], m))
    if op in S.QUANT: return (op, m.get(phi[1], phi[1]), phi[2], rename_vars(phi[3], m))
    return (op,) + tuple(rename_vars(c, m) for c in phi[1:])

USER_NAMES = {'x': 'y', 'xx': 'z', 'xxx': 'w'}      # user-given names of equal length: only preprocessing tells them apart

def small_binder_formulas():
    """every binder over every chain of <= 2 fragment unary operators applied to the variable (near-misses of the shortcuts)"""
    out = []
    for q in ('bind', 'exists', 'forall'):
        for chain in [(), ('AG',), ('EF',), ('not',), ('AG', 'EF'), ('EF', 'AG'), ('AG', 'AG'), ('not', 'AG'), ('AG', 'not'), ('EF', 'EF')]:
            body = X
            for op in reversed(chain): body = (op, body)
            out.append((q, 'x', None, body))
            out.append((q, 'x', None, ('and', body, ('EF', P0))))
    return out

def run(chk):
    thorough = chk.tier == 'thorough'
    chk.bounds['families added after seeded changes'] = 'EU / AW over every ordered pair of distinct conjunctions of literals; AG / EF (nested once) over conjunctions of literals; swapped two-variable duplicates; E-MIR pair obligation: arbitrary steady-state arguments first, the two realisable ones (real steady states / empty set) decide'
    chk.bounds.update({'E-MIR': 'model_check_formula_unsafe_ex and eval_node (steady-state argument = free symbolic set) executed from MIR, n=2, k<=2, all transition systems',
                       'E-UNI': 'model_check_formula_unsafe_ex vs model_check_formula_dirty on instances U2, C2, M2; for formulas outside the fragment the miter is restricted to colours without a steady state'})
    pairs = operand_pairs()
    N0, N1 = ('not', P0), ('not', P1)
    lits = [P0, N0, P1, N1, ('and', P0, P1), ('and', N0, P1), ('and', P0, N1), ('and', N0, N1)]
    # unary fragment operators over single states / conjunctions of literals (set-shape dependent fast paths), nested once
    pairs += [(u, a) for u in ('AG', 'EF') for a in lits] + [(u1, (u2, a)) for u1, u2 in (('EF', 'AG'), ('AG', 'EF'), ('not', 'AG')) for a in lits[4:]]
    # duplicates with two free variables equal up to a swap (only model_check_formula_unsafe_ex builds its context from a single tree)
    pairs += [f for f in G.swapped_duplicates() if in_fragment(f)]
    frag = core_fragment() + small_binder_formulas() + pairs + [G.random_formula(chk.rng, 3, ['v0', 'v1'], ops_un=FRAG_UN, ops_bin=FRAG_BIN) for _ in range(40 if thorough else 8)]
    other = core_other() + [G.random_formula(chk.rng, 3, ['v0', 'v1']) for _ in range(30 if thorough else 6)]
    other = [f for f in other if not in_fragment(f)]
    # the shortcut '!{x}: AX {x}' is documented as unsupported by the variant and is excluded (it contains AX anyway)
    tasks = []
    nf = len(core_fragment()) + len(small_binder_formulas())
    sel = [f for f in pairs if f[0] not in ('EU', 'AW') or (f[1][0] in ('not', 'prop') and f[2][0] == 'and')] if not thorough else pairs      # E-MIR: literal W/U conjunction (quick)
    for f in frag[:nf] + sel + frag[nf + len(pairs):][:(30 if thorough else 6)]:
        k = S.quant_depth(f) or 1
        if k > 2: continue
        # (1) the variant == standard semantics (with self-loops) on the fragment; the text uses user-given variable names
        tasks.append({'n': 2, 'k': k, 'c': 0, 'entry': 'unsafe_ex', 'phis': [f], 'texts': [S.show(rename_vars(f, USER_NAMES))], 'self_loops': True})
        # (2) eval_node with two different free symbolic steady-state sets gives the same result
        tasks.append({'n': 2, 'k': k, 'c': 0, 'entry': 'eval_node_steady', 'phis': [f, f], 'equal_pairs': [(0, 1)], 'expect': 'pairs'})
    for f in other[:20 if thorough else 10]:
        k = S.quant_depth(f) or 1
        if k > 2: continue
        # (3) every formula on networks without steady states
        tasks.append({'n': 2, 'k': k, 'c': 0, 'entry': 'unsafe_ex', 'phis': [f], 'texts': [S.show(rename_vars(f, USER_NAMES))], 'self_loops': True, 'assume_no_steady': True})
    ET.run_tasks(chk, 'C18', tasks, signature='unsafe-ex')
    # ---- E-UNI
    for inst in UC.instances(['U2', 'C2'] + (['M2'] if thorough else [])):
        for group, fs in (('fragment', frag), ('steady-state-free colours', other)):
            for i in range(0, len(fs), 10):
                chunk = fs[i:i + 10]
                k = max(S.quant_depth(f) for f in chunk) or 1
                sess = UC.Session(inst, k, [{'phis': [], 'formulas': [S.show(rename_vars(f, USER_NAMES))], 'entry': 'unsafe_ex'} for f in chunk] + [{'phis': [f], 'entry': 'formula_dirty'} for f in chunk])
                dec = sess.dec
                has_steady = z3.Or(*[z3.And(*[z3.Not(sess.K.trans(i_, s)) for i_ in range(dec.n)]) for s in range(1 << dec.n)])
                for j, f in enumerate(chunk):
                    a, b = sess.first(j), sess.first(len(chunk) + j)
                    name = f'C18/E-UNI {inst.name} ({group}): unsafe_ex == standard for {S.show(f)}'
                    if a is None or b is None:
                        chk.obligation(name, 'E-UNI', 'violated'); chk.violation(name, 'unsafe-ex-error', {'answers': [sess.runs[j], sess.runs[len(chunk) + j]], 'formula': S.show(f)}, 'evaluation failed'); continue
                    pre = [dec.unit] + ([] if group == 'fragment' else [z3.Not(has_steady)])
                    v = uni.decide(pre + [dec.bdd(a) != dec.bdd(b)]); chk.queries += 1
                    if v.status == 'unsat': chk.obligation(name, 'E-UNI', 'holds', v.seconds, True, {'formula': S.show(f), 'instance': inst.name, 'restriction': group, 'verdict': 'unsat (BDD miter)'})
                    elif v.status == 'sat':
                        # the standard result is checked against the semantics in C01; here the unsafe result is the suspect
                        UC.confirm(chk, 'C18', sess, f, a, v.model, name, 'unsafe-ex')
                    else: chk.obligation(name, 'E-UNI', 'timeout', v.seconds)
    two_networks(chk)

def two_networks(chk):
    """two fully specified networks over the same variable names model-checked one after the other in ONE process: the second
    one must not see anything of the first (a cache keyed by names would); standard vs self-loop-free vs explicit semantics"""
    from .. import replay as RP, front
    n = 2; names = ['v0', 'v1']
    # T[(i, s)] = variable i can flip in state s.   N1: v0 := v1, v1 := v0 (steady states 00, 11);  N2: v0 := !v1, v1 := v0 (a 4-cycle)
    def table(f): return {(i, s_): (f(i, s_) != ((s_ >> i) & 1)) for i in range(n) for s_ in range(1 << n)}
    N1 = table(lambda i, s_: (s_ >> (1 - i)) & 1)
    N2 = table(lambda i, s_: (1 - ((s_ >> 1) & 1)) if i == 0 else (s_ & 1))
    fs = [('bind', 'x', None, ('AX', X)), ('EX', P0), ('AF', P1), ('bind', 'x', None, ('AG', ('EF', X))), ('EF', ('and', P0, P1))]
    for first, second, tag in ((N1, N2, 'steady states first'), (N2, N1, 'cycle first')):
        jobs = [{'op': 'mc', 'aeon': RP.concrete_aeon(n, T, names), 'k': 1, 'context': {}, 'runs': [{'entry': e, 'formulas': [S.show(f)]} for f in fs for e in ('formula_dirty', 'unsafe_ex')]} for T in (first, second)]
        ans = front.native(jobs); chk.native_replays += 1
        dec = uni.Decoded(ans[1])
        for i_, f in enumerate(fs):
            spec = sorted(RP.concrete_spec(n, second, {}, f, names, True))
            std = ans[1]['runs'][2 * i_]; uns = ans[1]['runs'][2 * i_ + 1]
            got_std = sorted(RP.states_of(dec, std['ok'])) if 'ok' in std else str(std)
            nm = f'C18/native two networks over the same names in one process ({tag}): second network, {S.show(f)}: standard evaluation == explicit semantics'
            if got_std == spec: chk.obligation(nm, 'native', 'holds', 0.0, False)
            else:
                chk.obligation(nm, 'native', 'violated'); chk.violation(nm, 'history', {'first_network': jobs[0]['aeon'], 'second_network': jobs[1]['aeon'], 'formula': S.show(f), 'got': got_std, 'semantics': spec}, f'after another network over the same variable names was model-checked in the same process, {S.show(f)} evaluates to {got_std}, semantics {spec}')
            if in_fragment(f) or second is N2:        # N2 has no steady state: the variants must agree on every formula
                got_uns = sorted(RP.states_of(dec, uns['ok'])) if 'ok' in uns else str(uns)
                nm2 = f'C18/native two networks in one process ({tag}): second network, {S.show(f)}: self-loop-free variant == standard'
                if got_uns == got_std: chk.obligation(nm2, 'native', 'holds', 0.0, False)
                else:
                    chk.obligation(nm2, 'native', 'violated'); chk.violation(nm2, 'history-unsafe', {'first_network': jobs[0]['aeon'], 'second_network': jobs[1]['aeon'], 'formula': S.show(f), 'standard': got_std, 'unsafe_ex': got_uns}, f'{S.show(f)}: standard {got_std}, self-loop-free {got_uns}')
