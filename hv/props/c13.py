"""C13 - EW and AW are weak until.  DESIGN.md section 4 / C13."""
import z3
from .. import kernels as KL, unicheck
from ..oracle import sem as S

A, B = ('wild', 'a'), ('wild', 'b')

def run(chk):
    thorough = chk.tier == 'thorough'
    chk.bounds['families added after seeded changes'] = 'every pair of the four until operators on the same operands inside one formula'
    configs = [(2, 0), (2, 1)] + ([(3, 0), (3, 1)] if thorough else [(3, 0)])
    chk.bounds.update({'E-MIR': 'n (network variables), c (explicit colour bits, symbolic valid-colour mask): ' + str(configs) + '; all transition systems, all argument sets inside the unit set',
                       'loop_unwinding': 'gfp/lfp loops 2^n+2, saturation 2^(n+c)+2, each with an unwinding assertion'})
    from ..run import run_parallel
    run_parallel(chk, 'hv.props.c13', 'kernel_part', configs)
    # dispatch through eval_node + end to end on the real libraries
    unicheck.run_family(chk, 'C13', unicheck.family_c13(chk))

def kernel_part(chk, cfg):
    n, c = cfg
    if True:
        lab = KL.Lab(chk, n, c)
        a, b = lab.set('a'), lab.set('b')
        ew = lab.run('eval_ew', [a, b, lab.steady, lab.cb])
        aw = lab.run('eval_aw', [a, b, lab.cb])
        wild = {'a': a, 'b': b}
        s_ew, s_aw = lab.spec(('EW', A, B), wild), lab.spec(('AW', A, B), wild)
        s_eu = lab.spec(('EU', A, B), wild)
        KL.require(lab, 'eval_ew == E[a U b] | EG a', ew == s_ew, ('spec', ('EW', A, B)), twin=(ew == s_eu), impl=ew, spec=s_ew)
        KL.require(lab, 'eval_aw == !E[!b U (!a & !b)]', aw == s_aw, ('spec', ('AW', A, B)), twin=(aw == lab.spec(('AU', A, B), wild)), impl=aw, spec=s_aw)
        # second, independent characterisation: greatest fixed points  gfp Z. b | (a & EX Z),  gfp Z. b | (a & AX Z)
        M = lab.M
        ex = lambda z: lab.spec(('EX', ('wild', 'z')), {'z': z}); ax = lambda z: lab.spec(('AX', ('wild', 'z')), {'z': z})
        z1 = M.unit; z2 = M.unit
        for _ in range(1 << n): z1 = b | (a & ex(z1)); z2 = b | (a & ax(z2))
        KL.require(lab, 'eval_ew == gfp Z. b | (a & EX Z)', ew == z1, ('spec', ('EW', A, B)), impl=ew, spec=z1)
        KL.require(lab, 'eval_aw == gfp Z. b | (a & AX Z)', aw == z2, ('spec', ('AW', A, B)), impl=aw, spec=z2)
        KL.require(lab, 'b <= eval_ew(a, b)', (b & ~ew) == 0, ('sub', B, ('EW', A, B)), twin=((a & ~ew) == 0), diff=b & ~ew)
        KL.require(lab, 'b <= eval_aw(a, b)', (b & ~aw) == 0, ('sub', B, ('AW', A, B)), twin=((a & ~aw) == 0), diff=b & ~aw)
        KL.require(lab, 'eval_aw(a, b) <= eval_ew(a, b)', (aw & ~ew) == 0, ('sub', ('AW', A, B), ('EW', A, B)), twin=((ew & ~aw) == 0), diff=aw & ~ew)
