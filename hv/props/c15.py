"""C15 - sanitised results equal raw results and do not depend on spare variable sets.  DESIGN.md section 4 / C15."""
import z3
from .. import unicheck as UC, evaltasks as ET, uni
from ..oracle import sem as S, gen as G
from . import c01, c02

def run(chk):
    thorough = chk.tier == 'thorough'
    chk.bounds['families added after seeded changes'] = 'plain entry points with a distinct user-given name per quantifier occurrence at every k; sibling-quantifier and swapped two-variable-duplicate families'
    chk.bounds.update({'E-UNI': 'instances U2, C2, M2; k in {depth, depth+1, depth+2}: sanitised BDD (canonical context) == raw BDD == semantics; sanitised BDDs identical across k; usable with SymbolicAsyncGraph::new(network)',
                       'E-MIR': 'sanitize_colored_vertices executed from MIR behind the string entry points (transfer_from by contract: Some(same function) iff independent of all auxiliary variables), n=2, k = depth .. depth+1'})
    chk.assumptions.append('E-MIR: SymbolicContext::transfer_from returns None exactly when the BDD depends on an auxiliary variable (documented contract)')
    core = G.core_plain(['v0', 'v1'])[::1 if thorough else 2] + [f for f in c02.family() if not (S.labels(f)[0] | S.labels(f)[1]) & {'empty', 'full'}][::1 if thorough else 3]
    rnd = [G.random_formula(chk.rng, 3, ['v0', 'v1'], wild=('w',), doms=('d',)) for _ in range(60 if thorough else 10)]
    P0, P1 = ('prop', 'v0'), ('prop', 'v1')
    taut = [('true',), ('EF', ('true',)), ('AG', ('or', P0, ('not', P0))), ('forall', 'x', None, ('or', ('EF', ('var', 'x')), ('not', ('EF', ('var', 'x'))))), ('iff', P0, P0), ('false',), ('not', ('true',))]
    sib = G.siblings(['v0', 'v1'])
    forms = taut + sib + G.swapped_duplicates() + core + rnd
    for inst in UC.instances(['U2', 'C2'] + (['M2'] if thorough else [])):
        for f in forms:
            d = S.quant_depth(f)
            per_k = {}
            for k in (d, d + 1, d + 2):
                plain_f = not (S.labels(f)[0] | S.labels(f)[1])
                # the plain (non-extended) entry points take the text with a distinct user-given name per quantifier occurrence
                ut = S.show(S.distinct_names(f))
                extra = [{'phis': [], 'formulas': [ut], 'entry': 'formula'}, {'phis': [], 'formulas': [ut], 'entry': 'formula_dirty'}] if plain_f else []
                sess = UC.Session(inst, k, [{'phis': [f], 'entry': 'ext'}, {'phis': [f], 'entry': 'ext_dirty'}] + extra, plain=True)
                san, raw = sess.first(0), sess.first(1)
                name = f'C15/E-UNI {inst.name} k={k} (depth {d}): {S.show(f)}'
                if plain_f:
                    nm2 = f'C15/native {inst.name} k={k} (depth {d}): model_check_formula(_dirty) on {ut!r} == extended entry points'
                    ok = san is not None and raw is not None and sess.first(2) == san and sess.first(3) == raw
                    chk.obligation(nm2, 'native', 'holds' if ok else 'violated', 0.0, False)
                    if not ok: chk.violation(nm2, 'plain-entry', {'instance': inst.name, 'aeon': inst.aeon, 'formula': ut, 'k': k, 'answers': [{kk: vv for kk, vv in r.items() if kk != 'ok'} or 'different set' for r in sess.runs[2:4]]}, f'k={k}: the plain entry points answer {str([r.get("err") or r.get("panic") or "a different set" for r in sess.runs[2:4]])[:300]} for {ut!r}')
                if san is None or raw is None:
                    chk.obligation(name, 'E-UNI', 'violated'); chk.violation(name, 'sanitize-error', {'instance': inst.name, 'aeon': inst.aeon, 'formula': S.show(f), 'k': k, 'answers': sess.runs}, f'k={k}: {sess.runs}'); continue
                per_k[k] = san
                # sanitised == raw (as functions of state and colour; names identify the variables)
                v = uni.decide([sess.dec.unit, sess.dec_plain.bdd(san) != sess.dec.bdd(raw)]); chk.queries += 1
                if v.status == 'unsat': chk.obligation(name + ' sanitised == raw', 'E-UNI', 'holds', v.seconds, True, {'formula': S.show(f), 'k': k, 'instance': inst.name, 'verdict': 'unsat (miter sanitised vs raw)'})
                elif v.status == 'sat':
                    chk.native_replays += 1
                    a1 = UC.eval_bdd(san, [bool(z3.is_true(v.model.eval(x, model_completion=True))) for x in sess.dec_plain.X]); a2 = UC.eval_bdd(raw, [bool(z3.is_true(v.model.eval(x, model_completion=True))) for x in sess.dec.X])
                    if a1 != a2: chk.obligation(name, 'E-UNI', 'violated'); chk.violation(name, 'sanitize-miter', {'instance': inst.name, 'aeon': inst.aeon, 'formula': S.show(f), 'k': k}, f'sanitised and raw result differ for {S.show(f)} with k={k}')
                    else: chk.obligation(name + ' (does not reproduce)', 'E-UNI', 'inconclusive')
                else: chk.obligation(name, 'E-UNI', 'timeout', v.seconds)
                if k == d: UC.check_equiv(chk, 'C15', sess, f, san, name + ' sanitised == semantics', 'sanitize', rdec=sess.dec_plain)
                UC.check_inside_unit(chk, 'C15', sess, f, san, name + ' sanitised result inside the unit set', 'sanitize-outside-unit', rdec=sess.dec_plain)
                comp = sess.ans.get('plain_compat', [None])[0]
                ok = bool(comp) and comp.get('same_num_vars') is True
                # the returned object itself (not only its BDD) lives in the canonical encoding: its own vertices() / colors()
                # projections equal those of the same BDD wrapped in the context of SymbolicAsyncGraph::new(network)
                pj = (sess.runs[0].get('proj') or [None])[0]
                if ok and pj is not None and ('panic' in pj or pj.get('v') != comp.get('exp_v') or pj.get('c') != comp.get('exp_c')):
                    ok = False; comp = {'projection_of_returned_object': pj, 'expected_vertices': comp.get('exp_v'), 'expected_colors': comp.get('exp_c')}
                chk.obligation(name + ' usable with a graph built by SymbolicAsyncGraph::new', 'native', 'holds' if ok else 'violated', 0.0, False)
                if not ok: chk.violation(name, 'canonical-context', {'instance': inst.name, 'formula': S.show(f), 'k': k, 'compat': comp}, f'sanitised result is not in the canonical context: {comp}')
            if len(set(per_k.values())) > 1:
                nm = f'C15/E-UNI {inst.name}: sanitised BDD independent of k for {S.show(f)}'
                chk.obligation(nm, 'E-UNI', 'violated'); chk.violation(nm, 'depends-on-k', {'instance': inst.name, 'aeon': inst.aeon, 'formula': S.show(f), 'bdds': per_k}, 'sanitised result differs between numbers of spare variable sets')
            elif per_k: chk.obligation(f'C15/E-UNI {inst.name}: sanitised BDD identical for k in {sorted(per_k)}: {S.show(f)}', 'native', 'holds', 0.0, False)
    # batches through the sanitising multi-formula / multi-tree entry points: same length as the raw batch and, position by
    # position, the same set (lists with adjacent repeats, alpha-variants that rename to one tree, non-adjacent repeats)
    chk.bounds['E-UNI batches'] = 'lists [f,f,g], [g,f,f], [f,g,f], [f,alpha(f),g], [f,f,f,g] through multi / trees / ext_multi vs their _dirty twins: equal length, miter per position'
    bq = [f for f in sib + taut if S.quant_depth(f) >= 1][:3 if not thorough else 8]
    bg = [('EX', P0), ('AG', ('EF', P1)), ('bind', 'x', None, ('EX', ('var', 'x')))]
    for inst in UC.instances(['U2', 'C2'] if thorough else ['C2']):
        for bi, f in enumerate(bq):
            g = bg[bi % len(bg)]; fa = S.distinct_names(f)
            for lst in ([f, f, g], [g, f, f], [f, g, f], [f, fa, g], [f, f, f, g]):
                k = max(S.quant_depth(x) for x in lst)
                texts = [S.show(x) for x in lst]
                for san_e, raw_e in (('multi', 'multi_dirty'), ('trees', 'trees_dirty'), ('ext_multi', 'ext_multi_dirty')):
                    sess = UC.Session(inst, k, [{'phis': lst, 'formulas': texts, 'entry': san_e}, {'phis': lst, 'formulas': texts, 'entry': raw_e}], plain=True)
                    name = f'C15/E-UNI {inst.name} k={k}: batch {texts} through {san_e} == {raw_e} position by position'
                    rs, rr = sess.runs[0].get('ok'), sess.runs[1].get('ok')
                    if not isinstance(rs, list) or not isinstance(rr, list) or len(rs) != len(lst) or len(rr) != len(lst):
                        chk.obligation(name, 'native', 'violated', 0.0, False)
                        chk.violation(name, 'sanitize-batch-shape', {'instance': inst.name, 'aeon': inst.aeon, 'formulas': texts, 'k': k, 'entry': san_e, 'answers': [len(x) if isinstance(x, list) else {kk: vv for kk, vv in r.items() if kk != 'ok'} for x, r in ((rs, sess.runs[0]), (rr, sess.runs[1]))]},
                                      f'{san_e} returns {len(rs) if isinstance(rs, list) else "no list"} results and {raw_e} {len(rr) if isinstance(rr, list) else "no list"} for {len(lst)} formulas {texts}')
                        continue
                    for i in range(len(lst)):
                        v = uni.decide([sess.dec.unit, sess.dec_plain.bdd(rs[i]) != sess.dec.bdd(rr[i])]); chk.queries += 1
                        nm = name + f' [{i}]'
                        if v.status == 'unsat': chk.obligation(nm, 'E-UNI', 'holds', v.seconds, True, {'formulas': texts, 'position': i, 'instance': inst.name, 'verdict': 'unsat (miter sanitised vs raw)'})
                        elif v.status == 'sat':
                            chk.native_replays += 1
                            a1 = UC.eval_bdd(rs[i], [bool(z3.is_true(v.model.eval(x, model_completion=True))) for x in sess.dec_plain.X]); a2 = UC.eval_bdd(rr[i], [bool(z3.is_true(v.model.eval(x, model_completion=True))) for x in sess.dec.X])
                            if a1 != a2: chk.obligation(nm, 'E-UNI', 'violated'); chk.violation(nm, 'sanitize-batch-miter', {'instance': inst.name, 'aeon': inst.aeon, 'formulas': texts, 'k': k, 'entry': san_e, 'position': i}, f'position {i} of {san_e} differs from {raw_e} for {texts}')
                            else: chk.obligation(nm + ' (does not reproduce)', 'E-UNI', 'inconclusive')
                        else: chk.obligation(nm, 'E-UNI', 'timeout', v.seconds)
    # E-MIR: sanitising entry point vs raw entry point, k = depth and depth + 1
    tasks = []
    fs = c01.dispatch_formulas()[::2 if not thorough else 1]
    for f in sib:
        d = S.quant_depth(f)
        if d > 1 and not thorough: continue
        # plain string entry points, user-given names distinct per occurrence, exactly `depth` variable sets
        for e in ('multi', 'formula_dirty'):
            tasks.append({'n': 2, 'k': d, 'c': 0, 'entry': e, 'phis': [f], 'texts': [S.show(S.distinct_names(f))]})
    for f in fs:
        d = S.quant_depth(f)
        if d > 1: continue
        for k in (d, d + 1):
            tasks.append({'n': 2, 'k': k, 'c': 0, 'entry': 'multi_ext', 'phis': [f]})
        tasks.append({'n': 2, 'k': d, 'c': 0, 'entry': 'multi_ext_dirty', 'phis': [f], 'check_unit': True})
    ET.run_tasks(chk, 'C15', tasks, signature='sanitize')
