"""C09 - canonical forms identify exactly the sub-formulae equal up to renaming; duplicate marking.  DESIGN.md 4 / C09."""
from .. import textlab as TL, front
from ..oracle import ref as R
from .c06 import run_scenario

def native_canon(trees):
    """replay on the compiled code (through the verif hook): canonical forms of the concrete sub-formulas vs the oracles"""
    diffs = []
    asts = [TL.tree_from_json(t) for t in trees]
    texts = [''.join(chr(c) for c in R.render(a)) for a in asts]
    res = front.native([{'op': 'text', 'what': 'canon', 'text': t} for t in texts])
    cs = []
    for a, t, r in zip(asts, texts, res):
        if 'ok' not in r: diffs.append(f'canonisation of {t!r} failed: {r}'); cs.append(None); continue
        cs.append(r['ok']['canon'])
        from ..mirsym.interp import PathCtx, RString
        I = TL.interp(); ctx = PathCtx(); I.ctx = ctx
        ren = {tuple(map(ord, k)): tuple(map(ord, v)) for k, v in r['ok']['renaming']}
        why, _ = TL.canon_consistent(I, ctx, a, [ord(c) for c in t], RString([ord(c) for c in r['ok']['canon']]), ren)
        if why: diffs.append(f"{t!r} -> {r['ok']['canon']!r} with renaming {dict(r['ok']['renaming'])}: {why}")
        r2 = front.native([{'op': 'text', 'what': 'canon', 'text': r['ok']['canon']}])[0]
        if r2.get('ok', {}).get('canon') != r['ok']['canon']: diffs.append(f"canonising the canonical form {r['ok']['canon']!r} gives {r2.get('ok', {}).get('canon')!r}")
    if len(asts) == 2 and None not in cs:
        al = TL.alpha_equiv(asts[0], asts[1])
        if (cs[0] == cs[1]) != (al is True): diffs.append(f"{texts[0]!r} and {texts[1]!r} are {'not ' if al is not True else ''}equal up to renaming but their canonical forms are {'equal' if cs[0] == cs[1] else 'different'} ({cs[0]!r}, {cs[1]!r})")
    return diffs

def native_dups(trees):
    r = front.native([{'op': 'text', 'what': 'dups_trees', 'trees': trees}])[0]
    if 'ok' not in r: return [f'mark_duplicates failed natively: {r}']
    dups = [(d['f'], sorted(d['d'].items()), d['n']) for d in r['ok']['dups']]
    why = TL.check_dups(dups, [TL.tree_from_json(t) for t in trees])
    return [why + ' [formulas: ' + ' ; '.join(t['s'] for t in r['ok']['trees']) + ']'] if why else []

def run_scen(chk, scen, params, label, replay, sig):
    res, info = TL.explore_parallel(scen, params, budget=40)
    chk.paths += len(res); chk.queries += info['queries']; chk.note_functions(info['functions']); chk.models |= info['models']
    name = f'C09/E-MIR {label} ({len(res)} paths)'
    if info['errors']: chk.obligation(name + ' [' + info['errors'][0][:150] + ']', 'E-MIR/fork', 'inconclusive'); return
    groups = {}
    for r in res: groups.setdefault(r.get('group'), []).append(r)
    for g, rs in sorted(groups.items(), key=lambda kv: str(kv[0])):
        nm = f'{name} family member {g}'
        bad = [r for r in rs if r.get('ok') is not True]
        seen = set()
        for b in bad[:6]:
            if b.get('trees') is None: chk.obligation(nm + ' [' + str(b.get('panic') or b.get('why'))[:120] + ': no witness]', 'E-MIR/fork', 'inconclusive'); continue
            key = str(b['trees'])
            if key in seen: continue
            seen.add(key); chk.native_replays += 1
            diffs = replay(b['trees'])
            if diffs: chk.obligation(nm, 'E-MIR/fork', 'violated'); chk.violation(nm, sig, {'trees': b['trees'], 'mir': b.get('why'), 'differences': diffs}, '; '.join(diffs)[:600])
            else: chk.obligation(nm + f' (counterexample: {b.get("why")} does not reproduce natively)', 'E-MIR/fork', 'inconclusive')
        if not bad: chk.obligation(nm, 'E-MIR/fork', 'holds', 0.0, len(rs) > 1, {'scenario': scen, 'params': params, 'paths': len(rs), 'sub_formulas_per_path': rs[0].get('subs')})

def run(chk):
    thorough = chk.tier == 'thorough'
    chk.bounds['families added after seeded changes'] = 'domain-label twins for every quantifier kind'
    n = len(TL.pre_family())
    chk.bounds.update({'canonisation': f'every sub-formula of {n} preprocessed formula shapes (height <= 6) x every way to bind each variable occurrence / jump to an enclosing quantifier; wild-card and domain labels are symbolic 1-character names, one proposition is 2 symbolic characters; all pairs of sub-formulas of one tree (thorough: of two trees)',
                       'duplicates': 'mark_duplicates_canonized_multiple on lists of 1 (quick: 2 from a subset; thorough: all pairs) trees, three global iteration-order policies for HashSet / BinaryHeap ties',
                       'outside': 'formula shapes beyond the family'})
    chk.assumptions.append('native replay of canonisation counterexamples goes through the feature-gated hook evaluation::verif_hooks (re-export only)')
    run_scen(chk, 'c09_canon', {}, 'get_canonical_and_renaming: text outside names unchanged, consistent and injective naming, renaming of free variables, idempotence, same form <=> alpha-equivalent (all pairs of sub-formulas)', native_canon, 'canon')
    if thorough: run_scen(chk, 'c09_canon', {'pair': 1}, 'the same across the sub-formulas of two trees', native_canon, 'canon')
    run_scen(chk, 'c09_dups', {'k': 1}, 'mark_duplicates on one tree: counter m implies >= m+1 occurrences up to renaming with identical free-variable domains', native_dups, 'dups')
    run_scen(chk, 'c09_dups', {'k': 2, 'second': None if thorough else [2, 5, 6, 10]}, 'mark_duplicates on two trees', native_dups, 'dups')
    if chk.unexplored:
        from .. import fallback
        fallback.canonisation(chk, 'C09', native_canon, native_dups)
