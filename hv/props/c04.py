"""C04 - sub-formula caching and batch evaluation are observationally transparent.  DESIGN.md section 4 / C04."""
import itertools, z3
from .. import unicheck as UC, evaltasks as ET, uni
from ..oracle import sem as S, gen as G

P0, P1 = ('prop', 'v0'), ('prop', 'v1')
X, XX, XXX = ('var', 'x'), ('var', 'xx'), ('var', 'xxx')
W, P = ('wild', 'w'), ('wild', 'p')
ATTR = ('bind', 'x', None, ('AG', ('EF', X)))

def pool():
    """formulas built to overlap: duplicates up to renaming, under equal / different domains, closed duplicates inside and
    outside restricted scopes, wild-card duplicates, patterns, jumps below restricted quantifiers"""
    return [
        ('and', ('bind', 'x', None, ('AX', X)), ('EX', ('bind', 'x', None, ('AX', X)))),
        ('bind', 'x', None, ('and', ('AX', X), ('exists', 'xx', None, ('and', ('AX', XX), ('EF', X))))),
        ('and', ('AX', P1), ('bind', 'x', 'd', ('AX', P1))),
        ('or', ('bind', 'x', 'd', ('AX', P1)), ('AX', P1)),
        ('and', ('bind', 'x', 'd', ('EX', X)), ('bind', 'x', 'e', ('EX', X))),
        ('and', ('bind', 'x', 'd', ('EX', X)), ('EF', ('bind', 'x', 'd', ('EX', X)))),
        ('and', ('exists', 'x', 'd', ('jump', 'x', ('EF', ('and', X, W)))), ('exists', 'x', None, ('jump', 'x', ('EF', ('and', X, W))))),
        ('and', ('EX', W), ('bind', 'x', 'd', ('and', ('EX', W), X))),
        ('or', ('bind', 'x', 'd', ('EX', W)), ('EX', W)),
        ('and', ('EF', ('and', W, P0)), ('AG', ('EF', ('and', W, P0)))),
        ('imp', ATTR, ('EF', ATTR)),
        ('bind', 'x', 'd', ('and', ('bind', 'xx', None, ('AX', XX)), ('EX', ('bind', 'xx', None, ('AX', XX))))),
        ('bind', 'x', 'd', ('exists', 'xx', 'e', ('and', ('EX', X), ('jump', 'xx', ('EX', X))))),
        ('and', ('forall', 'x', 'd', ('EX', ('or', X, P0))), ('forall', 'x', 'd', ('AX', ('EX', ('or', X, P0))))),
        ('EX', P0), ('AX', P1), ('EX', W), ('bind', 'x', None, ('AX', X)), ATTR, ('bind', 'x', 'd', ('AX', P1)), ('exists', 'x', None, ('EX', ('EX', X))),
        ('bind', 'x', None, ('exists', 'xx', None, ('and', ('EX', XX), ('jump', 'xx', ('EX', X))))),
    ]

def run(chk):
    thorough = chk.tier == 'thorough'
    chk.bounds.update({'E-MIR': 'model_check_multiple_extended_formulae_dirty executed from MIR on batches of 1..3 formulas (quick: 2), n=2, k<=2; three global iteration-order policies for every HashMap / HashSet / BinaryHeap tie (thorough: every permutation for pairs); all transition systems and context sets',
                       'E-UNI': 'batches of up to 4 formulas through ext_multi(_dirty), against single evaluation, against an EvalContext without duplicates, repeated runs, with a recording progress observer; instances U2, C2, M2'})
    chk.assumptions.append('each result is compared with the explicit semantics of its own formula (hence with single evaluation and with sharing disabled)')
    fs = pool()
    rng = chk.rng
    tasks = []
    singles = fs[:14]
    # every formula alone (sharing inside one formula), then pairs / triples in both orders and with repetition
    for f in singles: tasks.append({'n': 2, 'k': max(1, S.quant_depth(f)), 'c': 0, 'entry': 'multi_ext_dirty', 'phis': [f], 'order_mode': 'global'})
    pairs = [(i, j) for i in range(len(fs)) for j in range(len(fs)) if i != j]
    rng.shuffle(pairs)
    for (i, j) in pairs[:40 if thorough else 10]:
        b = [fs[i], fs[j]]
        tasks.append({'n': 2, 'k': max(S.quant_depth(f) for f in b) or 1, 'c': 0, 'entry': 'multi_ext_dirty', 'phis': b, 'order_mode': 'global'})
        tasks.append({'n': 2, 'k': max(S.quant_depth(f) for f in b) or 1, 'c': 0, 'entry': 'multi_ext_dirty', 'phis': [fs[j], fs[i], fs[j]], 'order_mode': 'global'})
    if thorough:
        for (i, j) in pairs[:12]:
            b = [fs[i], fs[j]]
            if max(S.quant_depth(f) for f in b) <= 1: tasks.append({'n': 2, 'k': 1, 'c': 0, 'entry': 'multi_ext_dirty', 'phis': b, 'max_perm': 3, 'order_mode': 'perm'})
        for (i, j) in pairs[:12]:
            b = [fs[i], fs[j]]
            if max(S.quant_depth(f) for f in b) <= 1: tasks.append({'n': 2, 'k': 1, 'c': 1, 'entry': 'multi_ext_dirty', 'phis': b, 'order_mode': 'global', 'timeout_ms': 600000})
    ET.run_tasks(chk, 'C04', tasks, signature='batch')
    e_uni(chk, fs, thorough)

def e_uni(chk, fs, thorough):
    rng = chk.rng
    rnd = [G.random_formula(rng, 3, ['v0', 'v1'], wild=('w',), doms=('d', 'e')) for _ in range(40 if thorough else 8)]
    allf = fs + rnd
    for inst in UC.instances(['U2', 'C2'] + (['M2'] if thorough else [])):
        for rep in range(6 if thorough else 2):
            batch = [rng.choice(allf) for _ in range(rng.choice([2, 3, 4]))]
            if rep == 0: batch = [fs[2], fs[3], fs[2]]      # closed duplicate inside / outside a restricted scope, repeated
            k = max(S.quant_depth(f) for f in batch) or 1
            perm = list(reversed(batch))
            runs = [{'phis': batch, 'entry': 'ext_multi_dirty'}, {'phis': batch, 'entry': 'ext_multi_dirty', 'observer': True}, {'phis': perm, 'entry': 'ext_multi_dirty'},
                    {'phis': batch, 'entry': 'nocache_dirty'}, {'phis': batch, 'entry': 'ext_multi'}] + [{'phis': [f], 'entry': 'ext_dirty'} for f in batch]
            sess = UC.Session(inst, k, runs)
            tag = f'C04/E-UNI {inst.name} batch [' + ' ; '.join(S.show(f) for f in batch) + ']'
            if any('ok' not in r for r in sess.runs):
                bad = [r for r in sess.runs if 'ok' not in r][0]
                chk.obligation(tag, 'E-UNI', 'violated'); chk.violation(tag, 'batch-error', {'instance': inst.name, 'aeon': inst.aeon, 'batch': [S.show(f) for f in batch], 'answer': bad}, f'batch evaluation failed: {bad}'); continue
            together = sess.runs[0]['ok']
            for pos, f in enumerate(batch):
                UC.check_equiv(chk, 'C04', sess, f, together[pos], f'{tag} position {pos} == semantics of its formula', 'batch')
                # literal identity of the BDDs: observer / no observer, permuted list, sharing disabled, alone
                same = {'with progress observer': sess.runs[1]['ok'][pos], 'in the reversed list': sess.runs[2]['ok'][len(batch) - 1 - pos],
                        'with sharing disabled': sess.runs[3]['ok'][pos], 'evaluated alone': sess.runs[5 + pos]['ok']}
                for what, other in same.items():
                    name = f'{tag} position {pos}: same set {what}'
                    if other == together[pos]:
                        chk.obligation(name, 'E-UNI', 'holds', 0.0, False); continue
                    v = uni.decide([sess.dec.unit, sess.dec.bdd(other) != sess.dec.bdd(together[pos])]); chk.queries += 1
                    if v.status == 'unsat': chk.obligation(name, 'E-UNI', 'holds', v.seconds, True, {'claim': name, 'verdict': 'unsat (BDD miter)'})
                    elif v.status == 'sat':
                        chk.native_replays += 1
                        chk.obligation(name, 'E-UNI', 'violated'); chk.violation(name, 'batch-miter', {'instance': inst.name, 'aeon': inst.aeon, 'batch': [S.show(x) for x in batch], 'position': pos, 'what': what}, name + ' fails (the two native BDDs differ on a valid colour)')
                    else: chk.obligation(name, 'E-UNI', 'timeout', v.seconds)
                UC.check_equiv(chk, 'C04', sess, f, sess.runs[4]['ok'][pos], f'{tag} position {pos} sanitised == semantics', 'batch', rdec=sess.dec_plain)
            if sess.runs[1].get('observer_calls', 0) == 0:
                chk.obligation(tag + ': progress observer was called', 'E-UNI', 'inconclusive')
