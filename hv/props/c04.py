"""C04 - sub-formula caching and batch evaluation are observationally transparent.  DESIGN.md section 4 / C04."""
import itertools, z3
from .. import unicheck as UC, evaltasks as ET, uni
from ..oracle import sem as S, gen as G

P0, P1 = ('prop', 'v0'), ('prop', 'v1')
X, XX, XXX = ('var', 'x'), ('var', 'xx'), ('var', 'xxx')
W, P = ('wild', 'w'), ('wild', 'p')
ATTR = ('bind', 'x', None, ('AG', ('EF', X)))

def pool():
    """formulas built to overlap: duplicates up to renaming, under equal / different domains, closed duplicates inside and
    outside restricted scopes, wild-card duplicates, patterns, jumps below restricted quantifiers"""
    return [
        ('and', ('bind', 'x', None, ('AX', X)), ('EX', ('bind', 'x', None, ('AX', X)))),
        ('bind', 'x', None, ('and', ('AX', X), ('exists', 'xx', None, ('and', ('AX', XX), ('EF', X))))),
        ('and', ('AX', P1), ('bind', 'x', 'd', ('AX', P1))),
        ('or', ('bind', 'x', 'd', ('AX', P1)), ('AX', P1)),
        ('and', ('bind', 'x', 'd', ('EX', X)), ('bind', 'x', 'e', ('EX', X))),
        ('and', ('bind', 'x', 'd', ('EX', X)), ('EF', ('bind', 'x', 'd', ('EX', X)))),
        ('and', ('exists', 'x', 'd', ('jump', 'x', ('EF', ('and', X, W)))), ('exists', 'x', None, ('jump', 'x', ('EF', ('and', X, W))))),
        ('and', ('EX', W), ('bind', 'x', 'd', ('and', ('EX', W), X))),
        ('or', ('bind', 'x', 'd', ('EX', W)), ('EX', W)),
        ('and', ('EF', ('and', W, P0)), ('AG', ('EF', ('and', W, P0)))),
        ('imp', ATTR, ('EF', ATTR)),
        ('bind', 'x', 'd', ('and', ('bind', 'xx', None, ('AX', XX)), ('EX', ('bind', 'xx', None, ('AX', XX))))),
        ('bind', 'x', 'd', ('exists', 'xx', 'e', ('and', ('EX', X), ('jump', 'xx', ('EX', X))))),
        ('and', ('forall', 'x', 'd', ('EX', ('or', X, P0))), ('forall', 'x', 'd', ('AX', ('EX', ('or', X, P0))))),
        # duplicates in the scope of a restricted outer and an unrestricted inner variable, neither occurring in them
        ('bind', 'x', 'd', ('exists', 'xx', None, ('jump', 'xx', ('and', X, ('EF', ('and', P0, ('not', P1))))))), ('EF', ('and', P0, ('not', P1))),
        ('bind', 'x', None, ('exists', 'xx', 'd', ('and', ('jump', 'xx', ('and', X, ('AX', W))), ('AX', W)))),
        # duplicates with one free and one bound variable at different depths; two free variables equal up to a swap
        ('bind', 'x', None, ('and', ('exists', 'xx', None, ('jump', 'xx', ('EX', X))), ('exists', 'xx', None, ('and', ('exists', 'xxx', None, ('jump', 'xxx', ('EX', XX))), X)))),
        ('bind', 'x', None, ('exists', 'xx', None, ('and', ('and', ('jump', 'x', ('not', XX)), ('jump', 'x', ('EF', XX))), ('jump', 'xx', ('EF', X))))),
        ('EX', P0), ('AX', P1), ('EX', W), ('bind', 'x', None, ('AX', X)), ATTR, ('bind', 'x', 'd', ('AX', P1)), ('exists', 'x', None, ('EX', ('EX', X))),
        ('bind', 'x', None, ('exists', 'xx', None, ('and', ('EX', XX), ('jump', 'xx', ('EX', X))))),
    ] + G.swapped_duplicates()

def scope_family():
    """a closed duplicate inside a stack of quantifiers (each with / without a domain, none occurring in it) and outside,
    in both evaluation orders"""
    out = []
    for stack in [('d', None), (None, 'd'), ('d', 'e'), ('d', None, None), (None, 'd', None), (None, None, 'd'), ('d',), ('e', 'd', None)]:
        nv = 'xxx' if len(stack) < 3 else 'x'
        for psi in [('EF', ('and', P0, ('not', P1))), ('AX', W), ('bind', nv, None, ('AX', ('var', nv))), ('bind', nv, None, ('AG', ('EF', ('var', nv))))]:
            if len(stack) == 3 and psi[0] == 'bind': continue
            vs = ['x', 'xx', 'xxx'][:len(stack)]
            body = psi
            for v in vs: body = ('and', ('var', v), body)
            inner = ('jump', vs[-1], body)
            for v, d, q in reversed(list(zip(vs, stack, ['bind', 'exists', 'forall']))): inner = (q, v, d, inner if q != 'forall' else ('or', ('not', ('var', v)), inner) if False else inner)
            out += [('and', inner, psi), ('or', psi, inner)]
    # a duplicate that mentions only the OUTER variable, inside an inner restricted scope and outside it (still inside the outer one)
    for da, db in [('d', 'e'), (None, 'e'), ('d', None), ('d', 'd')]:
        for psi in [('EF', X), ('AX', ('and', X, W))]:
            inner = ('exists', 'xx', db, ('jump', 'xx', psi))
            for q in ('bind', 'exists'):
                body1, body2 = ('or', inner, psi), ('and', psi, ('not', inner))
                out += [(q, 'x', da, body1 if q == 'bind' else ('jump', 'x', body1)), (q, 'x', da, body2 if q == 'bind' else ('jump', 'x', body2))]
    # an inner quantifier whose domain is EMPTY in the universe of the outer restricted scope (d and e never share a colour),
    # then a closed duplicate inside the outer scope, then the same duplicate outside (and the other way round)
    for psi in [('EF', ('and', P0, ('not', P1))), ('AX', W)]:
        for q1, q2 in (('bind', 'exists'), ('exists', 'forall'), ('forall', 'bind')):
            inner = (q2, 'xx', 'e', ('jump', 'xx', P0))
            scope = (q1, 'x', 'd', ('or', inner, psi) if q1 == 'bind' else ('jump', 'x', ('or', inner, psi)))
            out += [('and', scope, psi), ('or', ('not', psi), scope)]
    return out

def triple_family():
    """a one-variable duplicate occurring three times under every sequence of variable names (cache hits with renaming)"""
    out = []
    import itertools
    for mk in (lambda v: ('EF', ('var', v)), lambda v: ('AX', ('and', ('var', v), W))):
        for seq in itertools.product(['x', 'xx', 'xxx'], repeat=3):
            if len(set(seq)) == 1: continue
            body = ('and', mk(seq[0]), ('and', mk(seq[1]), ('EX', mk(seq[2]))))
            out.append(('bind', 'x', None, ('exists', 'xx', None, ('forall', 'xxx', None, ('or', body, ('and', ('var', 'xxx'), ('not', ('var', 'xx'))))))))
    return out

VARS = ['x', 'xx', 'xxx']
def psi_templates():
    """duplicate candidates with 0-2 free-variable slots ('$0', '$1'); some bind a variable of their own ('NEW')"""
    S0, S1 = ('var', '$0'), ('var', '$1')
    return [(0, ('EF', ('and', P0, ('not', P1)))), (0, ('AX', W)), (0, ('bind', 'NEW', None, ('AX', ('var', 'NEW')))), (0, ('bind', 'NEW', None, ('AG', ('EF', ('var', 'NEW'))))),
            (1, ('EX', S0)), (1, ('AG', ('EF', ('and', S0, W)))), (1, ('exists', 'NEW', None, ('jump', 'NEW', ('EX', S0)))), (1, ('bind', 'NEW', 'e', ('or', ('var', 'NEW'), ('EX', S0)))),
            (2, ('and', S0, ('EX', S1))), (2, ('jump', '$0', ('EF', S1)))]

def instantiate(t, slots, depth):
    op = t[0]
    if op == 'var': return ('var', slots[int(t[1][1:])] if t[1].startswith('$') else (VARS[depth] if t[1] == 'NEW' else t[1]))
    if op in ('true', 'false', 'prop', 'wild'): return t
    if op == 'jump': return ('jump', slots[int(t[1][1:])] if t[1].startswith('$') else (VARS[depth] if t[1] == 'NEW' else t[1]), instantiate(t[2], slots, depth))
    if op in S.QUANT: return (op, VARS[depth] if t[1] == 'NEW' else t[1], t[2], instantiate(t[3], slots, depth))
    return (op,) + tuple(instantiate(c, slots, depth) for c in t[1:])

def gen_dup_formula(rng, templates, depth=4):
    """random context with several occurrences of the same duplicate candidate at different depths / scopes / domains"""
    def hole(scope):
        cands = [(n, t) for n, t in templates if n <= len(scope) and (len(scope) < 3 or 'NEW' not in str(t))]
        n, t = rng.choice(cands)
        return instantiate(t, rng.sample(scope, n), len(scope))
    def ctx(d, scope):
        r = rng.random()
        if d == 0 or r < 0.3: return hole(scope)
        if r < 0.6 and len(scope) < 3:
            q = rng.choice(['bind', 'exists', 'forall']); dom = rng.choice([None, None, 'd', 'e']); v = VARS[len(scope)]
            body = ctx(d - 1, scope + [v])
            use = rng.choice([('var', v), ('EX', ('var', v)), None, None])
            if use is not None: body = (rng.choice(['and', 'or']), use, body)
            if rng.random() < 0.3: body = ('jump', v, body)
            return (q, v, dom, body)
        if r < 0.75: return (rng.choice(['EX', 'AX', 'not', 'EF', 'AG']), ctx(d - 1, scope))
        return (rng.choice(['and', 'or', 'imp', 'EU']), ctx(d - 1, scope), ctx(d - 1, scope))
    return ctx(depth, [])

def run(chk):
    thorough = chk.tier == 'thorough'
    chk.bounds['families added after seeded changes'] = 'scope-stack family with the two recognised patterns as duplicates; swapped two-variable and partial-dependence duplicates (@{x}: v0); plain batches of different heights in both orders through model_check_multiple_formulae(_dirty) / model_check_multiple_trees(_dirty)'
    chk.bounds.update({'E-MIR': 'model_check_multiple_extended_formulae_dirty executed from MIR on batches of 1..3 formulas (quick: 2), n=2, k<=2; three global iteration-order policies for every HashMap / HashSet / BinaryHeap tie (thorough: every permutation for pairs); all transition systems and context sets',
                       'E-UNI': 'batches of up to 4 formulas through ext_multi(_dirty), against single evaluation, against an EvalContext without duplicates, repeated runs, with a recording progress observer; instances U2, C2, M2'})
    chk.assumptions.append('each result is compared with the explicit semantics of its own formula (hence with single evaluation and with sharing disabled)')
    fs = pool()
    rng = chk.rng
    tasks = []
    singles = fs[:20]
    # every formula alone (sharing inside one formula), then pairs / triples in both orders and with repetition
    for f in singles: tasks.append({'n': 2, 'k': max(1, S.quant_depth(f)), 'c': 0, 'entry': 'multi_ext_dirty', 'phis': [f], 'order_mode': 'global'})
    pairs = [(i, j) for i in range(len(fs)) for j in range(len(fs)) if i != j]
    rng.shuffle(pairs)
    for (i, j) in pairs[:40 if thorough else 8]:
        b = [fs[i], fs[j]]
        tasks.append({'n': 2, 'k': max(S.quant_depth(f) for f in b) or 1, 'c': 0, 'entry': 'multi_ext_dirty', 'phis': b, 'order_mode': 'global'})
        tasks.append({'n': 2, 'k': max(S.quant_depth(f) for f in b) or 1, 'c': 0, 'entry': 'multi_ext_dirty', 'phis': [fs[j], fs[i], fs[j]], 'order_mode': 'global'})
    if thorough:
        for (i, j) in pairs[:12]:
            b = [fs[i], fs[j]]
            if max(S.quant_depth(f) for f in b) <= 1: tasks.append({'n': 2, 'k': 1, 'c': 0, 'entry': 'multi_ext_dirty', 'phis': b, 'max_perm': 3, 'order_mode': 'perm'})
        for (i, j) in pairs[:12]:
            b = [fs[i], fs[j]]
            if max(S.quant_depth(f) for f in b) <= 1: tasks.append({'n': 2, 'k': 1, 'c': 1, 'entry': 'multi_ext_dirty', 'phis': b, 'order_mode': 'global', 'timeout_ms': 600000})
    for f in scope_family():
        if S.quant_depth(f) <= 2: tasks.append({'n': 2, 'k': S.quant_depth(f), 'c': 0, 'entry': 'multi_ext_dirty', 'phis': [f], 'order_mode': 'global', 'timeout_ms': 300000 if thorough else 40000})
    temps = psi_templates()
    dupf = []
    for _ in range(300 if thorough else 50):
        f = gen_dup_formula(rng, [rng.choice(temps[:2])] + rng.sample(temps, 2))
        if S.depth(f) >= 3: dupf.append(f)
    light = [f for f in dupf if S.quant_depth(f) <= 2 and len(S.ops_used(f) & {'EF', 'AG', 'EU'}) <= 1]
    for f in light[:30 if thorough else 5]:
        tasks.append({'n': 2, 'k': max(1, S.quant_depth(f)), 'c': 0, 'entry': 'multi_ext_dirty', 'phis': [f], 'order_mode': 'global', 'timeout_ms': 300000 if thorough else 40000})
    ET.run_tasks(chk, 'C04', tasks, signature='batch')
    UC.run_family(chk, 'C04', [(['U2', 'C2'], scope_family())], entries=('ext_dirty', 'ext_multi_dirty'), signature='batch')
    sub_batches(chk, thorough)
    tf = triple_family()
    UC.run_family(chk, 'C04', [(['U2'], tf if thorough else tf[::2])], entries=('ext_dirty',), signature='batch')
    UC.run_family(chk, 'C04', [(['U2'], G.swapped_duplicates())], entries=('ext_dirty', 'ext_multi_dirty'), signature='batch')
    e_uni(chk, fs + dupf, thorough, n_batches=60 if thorough else 14)

def sub_batches(chk, thorough):
    """for small formulas f with a closed non-atomic proper sub-formula g: the batches [f, g] and [g, f] share cached results"""
    rng = chk.rng
    cand = []
    for f in G.sample_small(rng, 6000 if thorough else 1500, sizes=(4, 5)):
        subs = [g for g in G.subformulas(f) if g is not f and g[0] not in ('prop', 'wild', 'var', 'true', 'false') and not S.free_vars(g)]
        if subs: cand.append((f, rng.choice(subs)))
    rng.shuffle(cand)
    for inst in UC.instances(['U2', 'C2'] if thorough else ['U2']):
        for (f, g) in cand[:400 if thorough else 60]:
            sess = UC.Session(inst, 3, [{'phis': [f, g], 'entry': 'ext_multi_dirty'}, {'phis': [g, f], 'entry': 'ext_multi_dirty'}])
            name = f'C04/E-UNI {inst.name} batches [{S.show(f)} ; {S.show(g)}] and reversed: every position == semantics'
            r0, r1 = sess.runs[0].get('ok'), sess.runs[1].get('ok')
            if r0 is None or r1 is None:
                chk.obligation(name, 'E-UNI', 'violated'); chk.violation(name, 'batch-error', {'instance': inst.name, 'aeon': inst.aeon, 'batch': [S.show(f), S.show(g)], 'answers': sess.runs}, f'batch fails: {sess.runs}'); continue
            ok = True
            for phi, b in ((f, r0[0]), (g, r0[1]), (g, r1[0]), (f, r1[1])):
                v = uni.decide([sess.dec.unit, sess.dec.bdd(b) != sess.sem(phi)], 60000); chk.queries += 1
                if v.status == 'sat': ok = False; UC.confirm(chk, 'C04', sess, phi, b, v.model, name, 'batch')
                elif v.status != 'unsat': ok = False; chk.obligation(name, 'E-UNI', 'timeout', v.seconds)
            if ok: chk.obligation(name, 'E-UNI', 'holds', 0.0, True, {'batch': [S.show(f), S.show(g)], 'instance': inst.name})

def e_uni(chk, fs, thorough, n_batches=2):
    rng = chk.rng
    rnd = [G.random_formula(rng, 3, ['v0', 'v1'], wild=('w',), doms=('d', 'e')) for _ in range(40 if thorough else 8)]
    allf = fs + rnd
    for inst in UC.instances(['U2', 'C2'] + (['M2'] if thorough else [])):
        for rep in range(n_batches):
            batch = [rng.choice(allf) for _ in range(rng.choice([2, 3, 4]))]
            if rep == 0: batch = [fs[2], fs[3], fs[2]]      # closed duplicate inside / outside a restricted scope, repeated
            k = max(S.quant_depth(f) for f in batch) or 1
            perm = list(reversed(batch))
            runs = [{'phis': batch, 'entry': 'ext_multi_dirty'}, {'phis': batch, 'entry': 'ext_multi_dirty', 'observer': True}, {'phis': perm, 'entry': 'ext_multi_dirty'},
                    {'phis': batch, 'entry': 'nocache_dirty'}, {'phis': batch, 'entry': 'ext_multi'}] + [{'phis': [f], 'entry': 'ext_dirty'} for f in batch]
            sess = UC.Session(inst, k, runs)
            tag = f'C04/E-UNI {inst.name} batch [' + ' ; '.join(S.show(f) for f in batch) + ']'
            if any('ok' not in r for r in sess.runs):
                bad = [r for r in sess.runs if 'ok' not in r][0]
                chk.obligation(tag, 'E-UNI', 'violated'); chk.violation(tag, 'batch-error', {'instance': inst.name, 'aeon': inst.aeon, 'batch': [S.show(f) for f in batch], 'answer': bad}, f'batch evaluation failed: {bad}'); continue
            together = sess.runs[0]['ok']
            for pos, f in enumerate(batch):
                UC.check_equiv(chk, 'C04', sess, f, together[pos], f'{tag} position {pos} == semantics of its formula', 'batch')
                # literal identity of the BDDs: observer / no observer, permuted list, sharing disabled, alone
                same = {'with progress observer': sess.runs[1]['ok'][pos], 'in the reversed list': sess.runs[2]['ok'][len(batch) - 1 - pos],
                        'with sharing disabled': sess.runs[3]['ok'][pos], 'evaluated alone': sess.runs[5 + pos]['ok']}
                for what, other in same.items():
                    name = f'{tag} position {pos}: same set {what}'
                    if other == together[pos]:
                        chk.obligation(name, 'E-UNI', 'holds', 0.0, False); continue
                    v = uni.decide([sess.dec.unit, sess.dec.bdd(other) != sess.dec.bdd(together[pos])]); chk.queries += 1
                    if v.status == 'unsat': chk.obligation(name, 'E-UNI', 'holds', v.seconds, True, {'claim': name, 'verdict': 'unsat (BDD miter)'})
                    elif v.status == 'sat':
                        chk.native_replays += 1
                        chk.obligation(name, 'E-UNI', 'violated'); chk.violation(name, 'batch-miter', {'instance': inst.name, 'aeon': inst.aeon, 'batch': [S.show(x) for x in batch], 'position': pos, 'what': what}, name + ' fails (the two native BDDs differ on a valid colour)')
                    else: chk.obligation(name, 'E-UNI', 'timeout', v.seconds)
                UC.check_equiv(chk, 'C04', sess, f, sess.runs[4]['ok'][pos], f'{tag} position {pos} sanitised == semantics', 'batch', rdec=sess.dec_plain)
            if sess.runs[1].get('observer_calls', 0) == 0:
                chk.obligation(tag + ': progress observer was called', 'E-UNI', 'inconclusive')
        # plain batches through the plain multi-formula entry points (their own code path), formulas of different heights in
        # every order: the i-th result belongs to the i-th formula
        plain = [f for f in fs if not (S.labels(f)[0] | S.labels(f)[1]) and S.quant_depth(f) <= 2]
        fixed = [[('bind', 'x', None, ('AG', ('EF', X))), P0, ('EX', ('not', P1))], [('EF', ('AX', P0)), ('not', P0), ('AG', ('EF', ('and', P0, P1))), P1]]
        for rep in range(len(fixed) + (4 if thorough else 1)):
            batch = fixed[rep] if rep < len(fixed) else [rng.choice(plain) for _ in range(rng.choice([2, 3]))]
            k = max(S.quant_depth(f) for f in batch) or 1
            for order in (batch, list(reversed(batch))):
                entries = ('multi', 'multi_dirty', 'trees', 'trees_dirty')
                sess = UC.Session(inst, k, [{'phis': order, 'entry': e} for e in entries])
                for e, r in zip(entries, sess.runs):
                    tag = f'C04/E-UNI {inst.name} plain batch through model_check_{e} [' + ' ; '.join(S.show(f) for f in order) + ']'
                    if 'ok' not in r or len(r['ok']) != len(order):
                        chk.obligation(tag, 'E-UNI', 'violated'); chk.violation(tag, 'batch-error', {'instance': inst.name, 'aeon': inst.aeon, 'batch': [S.show(f) for f in order], 'answer': {k_: v_ for k_, v_ in r.items() if k_ != 'ok'}}, 'batch evaluation failed or returned a different number of results'); continue
                    for pos, f in enumerate(order):
                        UC.check_equiv(chk, 'C04', sess, f, r['ok'][pos], f'{tag} position {pos} == semantics of its formula', 'batch', rdec=sess.dec_for(entries.index(e)))
