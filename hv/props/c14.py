"""C14 - invalid input is rejected with an error, never a panic or a silent answer.  DESIGN.md section 4 / C14."""
from .. import textlab as TL, front, unicheck as UC
from ..mirsym.interp import PathCtx

def native_outcome(text, k, present):
    inst = UC.instances(['U2'])[0]
    job = {'op': 'mc', 'aeon': inst.aeon, 'k': k, 'context': {l: inst.ctx[l] for l in ('w', 'd')}, 'drop': [l for l in ('w', 'd') if l not in present],
           'runs': [{'entry': 'ext', 'formulas': [text]}, {'entry': 'ext_multi_dirty', 'formulas': [text]}, {'entry': 'formula', 'formulas': [text]}]}
    ans = front.native([job])[0]
    if 'fatal' in ans or 'fatal_panic' in ans: return [('fatal', str(ans))] * 3
    return [('ok', None) if 'ok' in r else ('err', r['err']) if 'err' in r else ('panic', r.get('panic')) for r in ans['runs']]

def replay(text, k, present):
    """native run vs the classifier evaluated concretely (extended and plain entry points)"""
    I = TL.interp(); ctx = PathCtx(); I.ctx = ctx
    exp = TL.classify(I, ctx, [ord(c) for c in text], present, k)
    expp = TL.classify(I, PathCtx(), [ord(c) for c in text], [], k, extended=False)
    nat = native_outcome(text, k, present)
    diffs = []
    for entry, (o, msg), e in zip(('model_check_extended_formula', 'model_check_multiple_extended_formulae_dirty', 'model_check_formula'), nat, (exp, exp, expp)):
        ctxs = f', context labels {present}' if 'extended' in entry else ''
        if o == 'panic' or o == 'fatal': diffs.append(f'{entry}({text!r}, k={k}{ctxs}) panics: {msg}')
        elif o != e[0]: diffs.append(f'{entry}({text!r}, k={k}{ctxs}) returns {o}{" (" + str(msg) + ")" if msg else ""} but the input is classified {e[0]}{" (" + e[1] + ")" if e[0] == "err" else ""}')
    return diffs

def run(chk):
    thorough = chk.tier == 'thorough'
    chk.bounds['families added after seeded changes'] = 'wild-cards in repeated sub-formulas inside restricted scopes; native fallback (enumeration) only if a part is unexplored'
    chk.bounds.update({'strings': f'every string of <= {3 if thorough else 2} symbolic characters through model_check_multiple_extended_formulae executed from MIR (parser .. evaluation on the symbolic 2-variable model .. sanitizing), k=1',
                       'templates': f'{len(TL.C14_TEMPLATES)} formulas with one (thorough: two) symbolic character substituted at every position, k=2',
                       'context / k': f'{len(TL.C14_EXT)} extended formulas x every subset of the context labels x k in 0..3',
                       'outside': 'long random / Unicode strings beyond the representatives; context sets that are not sets of the graph'})
    chk.assumptions.append('expected outcome = reference parse + scope rules + proposition names + context labels + nesting depth <= k (DESIGN.md C14)')
    plan = [({'mode': 'chars', 'L': 1, 'k': 1}, 'all strings of 1 symbolic character'), ({'mode': 'chars', 'L': 2, 'k': 1}, 'all strings of 2 symbolic characters')]
    if thorough: plan.append(({'mode': 'chars', 'L': 3, 'k': 1}, 'all strings of 3 symbolic characters'))
    for k in (0, 1, 2, 3): plan.append(({'mode': 'context', 'k': k}, f'extended formulas x subsets of context labels, k={k}'))
    for k in (1, 2): plan.append(({'mode': 'context', 'k': k, 'entry': 'plain'}, f'the same formulas through the plain entry point model_check_multiple_formulae, k={k}'))
    plan.append(({'mode': 'template', 'edits': 1, 'k': 1, 'template': 0, 'entry': 'plain'}, f'template {TL.C14_TEMPLATES[0]!r} through the plain entry point with exactly as many spare sets as the nesting depth'))
    for ti in range(len(TL.C14_TEMPLATES) if thorough else 3):
        plan.append(({'mode': 'template', 'edits': 1, 'k': 2, 'template': ti}, f'template {TL.C14_TEMPLATES[ti]!r} with one symbolic character substituted'))
    for params, label in plan:
        res, info = TL.explore_parallel('c14', params, budget=30, timeout_ms=120000)
        chk.paths += len(res); chk.queries += info['queries']; chk.note_functions(info['functions']); chk.models |= info['models']
        nm = f'C14/E-MIR {label}: Ok / Err exactly as classified, no panic path ({len(res)} paths)'
        if info['errors']:
            if all('solver: unknown' in e for e in info['errors']): chk.obligation(nm + ' [solver timeout]', 'E-MIR/fork', 'timeout')
            else: chk.obligation(nm + ' [' + info['errors'][0][:150] + ']', 'E-MIR/fork', 'inconclusive')
            continue
        bad = [r for r in res if r.get('ok') is not True]
        seen = set()
        for b in bad[:8]:
            if b.get('text') is None: chk.obligation(nm + ' [' + str(b.get('panic') or b.get('why'))[:100] + ': no witness]', 'E-MIR/fork', 'inconclusive'); continue
            key = (b['text'], b['k'], tuple(b['present']))
            if key in seen: continue
            seen.add(key); chk.native_replays += 1
            diffs = replay(b['text'], b['k'], b['present'])
            if diffs: chk.obligation(nm, 'E-MIR/fork', 'violated'); chk.violation(nm, 'panic' if 'panic' in diffs[0] else 'classification', {'text': b['text'], 'k': b['k'], 'present': b['present'], 'mir': b.get('why'), 'differences': diffs}, '; '.join(diffs)[:500])
            else: chk.obligation(nm + f' (counterexample {b["text"]!r}: {b.get("why")} does not reproduce natively)', 'E-MIR/fork', 'inconclusive')
        nok = sum(1 for r in res if r.get('cls') == 'ok')
        if not bad: chk.obligation(nm, 'E-MIR/fork', 'holds', 0.0, nok > 0 and nok < len(res), {'params': params, 'paths': len(res), 'classified_ok': nok, 'classified_err': len(res) - nok})
    # native sweep: grammar-mutated strings through every string entry point (no panics, classification)
    rng = chk.rng; alphabet = list('!{}():@3V%~&|^=<>EXAGFUW _x1v0\\in\té²')
    n = 400 if thorough else 120; bad = 0
    bases = TL.C14_TEMPLATES + TL.C14_EXT
    for i in range(n):
        t = list(rng.choice(bases))
        for _ in range(rng.choice([1, 1, 2, 3])):
            op = rng.choice(['sub', 'del', 'ins'])
            pos = rng.randrange(len(t)) if t else 0
            if op == 'sub' and t: t[pos] = rng.choice(alphabet)
            elif op == 'del' and t: del t[pos]
            else: t.insert(pos, rng.choice(alphabet))
        text = ''.join(t); k = rng.choice([0, 1, 2, 3]); present = rng.choice([['w', 'd'], ['w'], ['d'], []])
        diffs = replay(text, k, present)
        if diffs:
            bad += 1; nm = f'C14/native mutated string {text!r} k={k} context {present}'
            chk.obligation(nm, 'native-vs-classifier', 'violated'); chk.violation(nm, 'panic' if 'panic' in diffs[0] else 'classification', {'text': text, 'k': k, 'present': present, 'differences': diffs}, '; '.join(diffs)[:400])
    if not bad: chk.obligation(f'C14/native {n} grammar-mutated strings x k x context subsets: no panic, Ok/Err as classified', 'native-vs-classifier', 'holds', 0.0, True, {'strings': n})
    # valid extended formulas with a complete context and exactly enough variable sets are evaluated (never an error, never a
    # panic) on instances whose context sets are colour-dependent (d and e share no colour, `empty`, `full`): the families of C02 / C04
    from . import c02, c04
    from ..oracle import sem as S
    valid = c02.family() + c02.repeated_domain_family() + c04.scope_family()[::3 if not thorough else 1]
    nbad = 0
    for inst in UC.instances(['U2', 'C2']):
        fs = [f for f in valid if not (S.labels(f)[0] | S.labels(f)[1]) - set(inst.ctx)]
        for i in range(0, len(fs), 15):
            chunk = fs[i:i + 15]
            for entry in ('ext', 'ext_multi_dirty'):
                sess = UC.Session(inst, max(S.quant_depth(f) for f in chunk) or 1, [{'phis': [f], 'entry': entry} for f in chunk])
                for f, r in zip(chunk, sess.runs):
                    if 'ok' in r: continue
                    nbad += 1; nm = f'C14/native {inst.name} {entry}: valid formula {S.show(f)} is evaluated'
                    chk.obligation(nm, 'native', 'violated'); chk.native_replays += 1
                    chk.violation(nm, 'panic' if 'panic' in r else 'classification', {'instance': inst.name, 'aeon': inst.aeon, 'formula': S.show(f), 'entry': entry, 'answer': {k_: v_ for k_, v_ in r.items() if k_ != 'ok'}}, f'valid input {S.show(f)} answered {str(r.get("panic") or r.get("err"))[:200]}')
    if not nbad: chk.obligation(f'C14/native: {len(valid)} valid extended formulas (nested / repeated / empty / colour-disjoint domains) x U2, C2 x sanitising and raw entry points: all evaluated', 'native', 'holds', 0.0, True, {'formulas': len(valid)})
    if chk.unexplored:
        # parts of the symbolic exploration have no verdict on this tree: bounded native enumeration instead (DESIGN.md 3.7)
        from .. import fallback
        fallback.grammar(chk, 'C14', signature='classification')
        texts = [t for t in fallback.text_corpus()[::7]][:1500]
        bad = 0
        for i, text in enumerate(texts):
            k = i % 3 + 1; present = [['w', 'd'], ['w'], []][i % 3]
            diffs = replay(text, k, present)
            if diffs:
                bad += 1; nm = f'C14/native-fallback {text!r} k={k} context {present}'
                chk.obligation(nm, 'native-fallback', 'violated'); chk.violation(nm, 'panic' if 'panic' in diffs[0] else 'classification', {'text': text, 'k': k, 'present': present, 'differences': diffs}, '; '.join(diffs)[:400])
                if bad >= 6: break
        if not bad: chk.obligation(f'C14/native-fallback: {len(texts)} enumerated strings through every string entry point: no panic, Ok/Err as classified', 'native-fallback', 'holds', 0.0, True, {'strings': len(texts), 'kind': 'enumeration, not a solver verdict'})
