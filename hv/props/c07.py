"""C07 - preprocessing validates binding and renames variables without changing meaning.  DESIGN.md section 4 / C07."""
from .. import textlab as TL, front
from ..oracle import ref as R
from ..mirsym.interp import PathCtx
from .c06 import run_scenario, consistent

AEON = 'v0 -> v1\nv1 -| v0\n'

def native_rename(tree_json, k=0):
    """native validate_props_and_rename_vars on the concrete tree vs the scope-checking / depth-naming oracle"""
    r = front.native([{'op': 'text', 'what': 'rename_tree', 'tree': tree_json, 'aeon': AEON, 'k': k}])[0]
    if 'fatal' in r or 'fatal_panic' in r: return [f'native failed: {r}']
    phi = TL.tree_from_json(r['built'])
    ok, exp, depth = TL.oracle_rename(PathCtx(), phi, ['v0', 'v1'])
    diffs = []
    if 'panic' in r: return [f"preprocessing panics on {r['built']['s']!r}: {r['panic']}"]
    if ('ok' in r) != ok: return [f"preprocessing {'accepts' if 'ok' in r else 'rejects (' + str(r.get('err')) + ')'} {r['built']['s']!r}, specification {'accepts' if ok else 'rejects: ' + exp}"]
    if not ok: return []
    got = TL.tree_from_json(r['ok'])
    if got != exp: diffs.append(f"result {r['ok']['s']!r} != depth-named alpha-equivalent tree {''.join(chr(c) for c in R.render(exp))!r}")
    c = consistent(r['ok'])
    if c: diffs.append('preprocessed tree: ' + c)
    # idempotence and number of names
    r2 = front.native([{'op': 'text', 'what': 'rename_tree', 'tree': r['ok'], 'aeon': AEON, 'k': k}])[0]
    if 'ok' not in r2 or r2['ok'] != r['ok']: diffs.append(f"preprocessing is not idempotent on {r['ok']['s']!r}: {r2.get('ok', r2)}")
    if r2.get('nvars') != depth: diffs.append(f"collect_unique_hctl_vars counts {r2.get('nvars')} names, maximal nesting depth is {depth}")
    return diffs

def run(chk):
    thorough = chk.tier == 'thorough'
    chk.bounds['families added after seeded changes'] = 'contexts with one auxiliary variable set and proposition names as long as the auxiliary BDD variable names; one closed shape at two nesting depths (3 skeletons); native fallback (enumeration) only if a part is unexplored'
    n = len(TL.skeletons())
    chk.bounds.update({'skeletons': f'{n} tree skeletons of height <= 5 with up to 7 variable-name slots (quantifiers, jumps and occurrences at many positions, domains, wild-cards)',
                       'names': f'every slot has its own symbolic name of 1 (thorough: also 2) characters, so the solver decides every equality pattern between names (incl. names equal to x / xx); one proposition name is 2 symbolic characters (valid or invalid network variable)',
                       'outside': 'skeletons beyond the list; names longer than 2 characters'})
    run_scenario(chk, 'C07', 'c07', {'len': 1}, 'validate_props_and_rename_vars == scope checker + depth naming (accept/reject, exact tree, name count, idempotence), 1-character symbolic names', native_rename, 'rename')
    psk = [i for i, sk in enumerate(TL.skeletons()) if 'P' in str(sk)]
    run_scenario(chk, 'C07', 'c07', {'len': 1, 'k': 1, 'only': psk}, 'the same against a context with one auxiliary variable set (proposition names as long as the auxiliary BDD variable names)', lambda t: native_rename(t, 1), 'rename')
    if thorough: run_scenario(chk, 'C07', 'c07', {'len': 2}, 'the same with 2-character symbolic names', native_rename, 'rename')
    else: run_scenario(chk, 'C07', 'c07', {'len': 2, 'only': [0, 1, 2, 6, 7, 9, 13, 16, 19, 21, 23, 24, 25]}, 'the same with 2-character symbolic names (13 skeletons)', native_rename, 'rename')
    if chk.unexplored:
        from .. import fallback
        fallback.preprocessing(chk, 'C07', native_rename)
