"""C05 - the parser accepts exactly the documented grammar and never drops input.  DESIGN.md section 4 / C05."""
import re, os, glob, collections
from .. import textlab as TL, front
from ..oracle import ref as R
from ..mirsym.interp import Unsupported, PathCtx, mkref, show, Panic

def native_vs_reference(text):
    """native tokenizer + parser (both modes) against the reference on one concrete string; returns list of differences"""
    jobs = [{'op': 'text', 'what': w, 'text': text} for w in ('tokenize', 'tokenize_ext', 'parse', 'parse_ext')]
    nt, nte, npl, npe = front.native(jobs)
    diffs = []
    for ext, ntok, npar in ((False, nt, npl), (True, nte, npe)):
        ref = TL.ref_concrete(text, ext)
        mode = 'extended' if ext else 'plain'
        if 'panic' in ntok or 'panic' in npar: diffs.append(f'{mode}: native panic {ntok.get("panic") or npar.get("panic")}'); continue
        if ('ok' in ntok) != (ref[0] != 'tok-reject'): diffs.append(f'{mode} tokenizer: native {"accepts" if "ok" in ntok else "rejects (" + str(ntok.get("err")) + ")"}, grammar {"rejects" if ref[0] == "tok-reject" else "accepts"}'); continue
        if 'ok' in ntok:
            it = [TL.tok_from_json(t) for t in ntok['ok']]
            if it != ref[1]: diffs.append(f'{mode} tokenizer: native tokens {it} != reference {ref[1]}')
        if ('ok' in npar) != (ref[0] == 'ok'): diffs.append(f'{mode} parser: native {"accepts as " + npar["ok"]["s"] if "ok" in npar else "rejects (" + str(npar.get("err")) + ")"}, grammar {"accepts" if ref[0] == "ok" else "rejects"}'); continue
        if 'ok' in npar:
            t = TL.tree_from_json(npar['ok'])
            if t != ref[2]: diffs.append(f'{mode} parser: native tree {npar["ok"]["s"]} != unique tree of the grammar {show(R.render(ref[2]))}')
            elif R.count_nodes(t) != R.count_tokens(ref[1]): diffs.append(f'{mode} parser: node count != token count')
    return diffs

def corpus():
    """string literals of the repository's own tests (translator validation + native conformance of the reference)"""
    out = []
    for f in sorted(glob.glob(os.path.join(front.REPO, 'src', '**', '*.rs'), recursive=True)):
        txt = open(f).read()
        i = txt.find('#[cfg(test)]')
        if '_test_' in f: i = 0
        if i < 0: continue
        for m in re.finditer(r'"((?:[^"\\\n]|\\.)*)"', txt[i:]):
            s = m.group(1).replace('\\\\', '\\').replace('\\"', '"')
            if 0 < len(s) <= 200 and '\\n' not in s and '{}' not in s: out.append(s)
    seen = set(); r = []
    for s in out:
        if s not in seen: seen.add(s); r.append(s)
    return r

def run(chk):
    thorough = chk.tier == 'thorough'
    chk.bounds['families added after seeded changes'] = 'native fallback (enumeration of 25 427 strings) only if a part is unexplored'
    Lc = [1, 2, 3] + ([4] if thorough else [])
    Lt = [1, 2, 3] + ([4] if thorough else [])
    chk.bounds.update({'characters': f'every string of length in {Lc} over printable ASCII, tab/newline/CR and the non-ASCII representatives (U+00A0, U+3000, e-acute, sharp-s, Cyrillic Zhe, superscript two, Arabic-Indic one, euro sign, middle dot); each character is a 32-bit solver variable; classes are discovered by the branches of the code and of the reference',
                       'tokens': f'every sequence of length in {Lt} over {len(TL.TOKEN_CLASSES)} token classes (incl. one-level groups); thorough adds length 5 over 10 classes',
                       'corpus': 'every string literal of the repository test modules through MIR, native and reference',
                       'outside': 'longer inputs; Unicode beyond the representatives'})
    chk.assumptions += ['reference grammar reading of DESIGN.md 3.6 (maximal munch; keywords only as whole lexemes; hybrid operators only at the start of a formula or group)',
                        'char::is_whitespace / is_alphanumeric modelled exactly on ASCII and on the representatives']
    for L in Lc:
        res, info = TL.explore_parallel('c05_chars', {'L': L})
        chk.paths += len(res); chk.queries += info['queries']; chk.note_functions(info['functions']); chk.models |= info['models']
        name = f'C05/E-MIR all strings of {L} symbolic characters: tokenizer + parser (plain, extended) == reference grammar ({len(res)} paths)'
        if info['errors']: chk.obligation(name + ' [' + info['errors'][0][:150] + ']', 'E-MIR/fork', 'inconclusive'); continue
        bad = [r for r in res if r.get('ok') is not True]
        acc = sum(1 for r in res if 'TP' in (r.get('cls') or []))
        done = set()
        for b in bad[:20]:
            text = b.get('text')
            if text is None or text in done: continue
            done.add(text); chk.native_replays += 1
            diffs = native_vs_reference(text)
            if b.get('panic'):
                diffs = diffs or ['MIR path panics: ' + b['panic']]
            if diffs: chk.obligation(name, 'E-MIR/fork', 'violated'); chk.violation(name, 'grammar', {'text': text, 'differences': diffs, 'mir': b.get('why')}, f'input {text!r}: ' + '; '.join(diffs)[:400])
            else: chk.obligation(name + f' (counterexample {text!r}: {b.get("why")} does not reproduce natively)', 'E-MIR/fork', 'inconclusive')
        panics = [b for b in bad if b.get('panic') and b.get('text') is None]
        if panics: chk.obligation(name + ' [panic path: ' + panics[0]['panic'][:100] + ']', 'E-MIR/fork', 'inconclusive')
        if not bad: chk.obligation(name, 'E-MIR/fork', 'holds', 0.0, acc > 0, {'length': L, 'paths': len(res), 'accepted_classes': acc, 'claim': 'accept/reject, token list, tree, node count == token count, stored text and height agree with the reference on every path'})
    # templates: every hybrid spelling x domain x nesting, identifier shapes; concrete and with one symbolic character
    for edits in (0, 1):
        res, info = TL.explore_parallel('c05_chars', {'templates': 1, 'edits': edits}, budget=40)
        chk.paths += len(res); chk.queries += info['queries']; chk.note_functions(info['functions'])
        base = f'C05/E-MIR templates ({edits} symbolic character substituted at any position)'
        if info['errors']: chk.obligation(base + ' [' + info['errors'][0][:150] + ']', 'E-MIR/fork', 'inconclusive'); continue
        groups = {}
        for r in res: groups.setdefault(r.get('group'), []).append(r)
        for g, rs in sorted(groups.items(), key=lambda kv: str(kv[0])):
            name = f'{base}: {g!r} ({len(rs)} paths)'
            bad = [r for r in rs if r.get('ok') is not True]; done = set()
            for b in bad[:6]:
                text = b.get('text')
                if text is None or text in done: continue
                done.add(text); chk.native_replays += 1
                diffs = native_vs_reference(text)
                if diffs: chk.obligation(name, 'E-MIR/fork', 'violated'); chk.violation(name, 'grammar-template', {'text': text, 'differences': diffs, 'mir': b.get('why')}, f'input {text!r}: ' + '; '.join(diffs)[:400])
                else: chk.obligation(name + f' (counterexample {text!r}: {b.get("why")} does not reproduce natively)', 'E-MIR/fork', 'inconclusive')
            if not bad: chk.obligation(name, 'E-MIR/fork', 'holds', 0.0, True, {'template': g, 'edits': edits, 'paths': len(rs)})
    # chains of binary operators: every pair (thorough: triple) of the nine binary operators between atoms
    from .. import trees as TRm
    B9 = list(TRm.BIN)
    chains = [('binary chains p op p op p', {'pattern': [['prop'], B9, ['prop', 'group1'], B9, ['prop']]})]
    chains.append(('unary / binary mixes', {'pattern': [['prop', 'not', 'EX'], ['prop', 'EU', 'and', 'not'], ['EU', 'AW', 'not', 'prop'], ['prop', 'AG', 'group3'], ['EU', 'or', 'prop'], ['prop', 'EX']]}))
    if thorough: chains.append(('binary chains with three operators', {'pattern': [['prop'], B9, ['prop'], B9, ['prop'], B9, ['prop']]}))
    for label, params in chains:
        res, info = TL.explore_parallel('c05_tokens', params, budget=300)
        chk.paths += len(res); chk.note_functions(info['functions'])
        name = f'C05/E-MIR parse_hctl_tokens on {label} == reference parser ({len(res)} sequences)'
        if info['errors']: chk.obligation(name + ' [' + info['errors'][0][:150] + ']', 'E-MIR/fork', 'inconclusive'); continue
        bad = [r for r in res if r.get('ok') is not True]
        for b in bad[:10]:
            ctx = PathCtx(); I = TL.interp(); I.ctx = ctx
            if 'seq' not in b: continue
            toks = [TL._mk_token(I, c, i, ctx)[1] for i, c in enumerate(b['seq'])]
            text = ' '.join(TL.token_text(t) for t in toks); chk.native_replays += 1
            diffs = native_vs_reference(text)
            if diffs: chk.obligation(name, 'E-MIR/fork', 'violated'); chk.violation(name, 'grammar-tokens', {'tokens': b['seq'], 'text': text, 'differences': diffs}, f'token sequence {text!r}: ' + '; '.join(diffs)[:400])
            else: chk.obligation(name + f' (counterexample {text!r} does not reproduce natively)', 'E-MIR/fork', 'inconclusive')
        if not bad: chk.obligation(name, 'E-MIR/fork', 'holds', 0.0, any(r.get('cls') == 'P' for r in res), {'pattern': label, 'sequences': len(res), 'accepted': sum(1 for r in res if r.get('cls') == 'P')})
    for L in Lt + ([5] if thorough else []):
        params = {'L': L} if L < 5 else {'L': L, 'classes': ['hyb_bind', 'and', 'iff', 'EU', 'not', 'EX', 'prop', 'var', 'group3', 'group_un']}
        res, info = TL.explore_parallel('c05_tokens', params, budget=300)
        chk.paths += len(res); chk.note_functions(info['functions'])
        name = f'C05/E-MIR parse_hctl_tokens on all token sequences of length {L} == reference parser ({len(res)} sequences)'
        if info['errors']: chk.obligation(name + ' [' + info['errors'][0][:150] + ']', 'E-MIR/fork', 'inconclusive'); continue
        bad = [r for r in res if r.get('ok') is not True]
        for b in bad[:10]:
            ctx = PathCtx(); I = TL.interp(); I.ctx = ctx
            if 'seq' not in b: continue
            toks = [TL._mk_token(I, c, i, ctx)[1] for i, c in enumerate(b['seq'])]
            text = ' '.join(TL.token_text(t) for t in toks); chk.native_replays += 1
            diffs = native_vs_reference(text)
            if diffs: chk.obligation(name, 'E-MIR/fork', 'violated'); chk.violation(name, 'grammar-tokens', {'tokens': b['seq'], 'text': text, 'differences': diffs}, f'token sequence {text!r}: ' + '; '.join(diffs)[:400])
            else: chk.obligation(name + f' (counterexample {text!r} does not reproduce natively)', 'E-MIR/fork', 'inconclusive')
        if not bad: chk.obligation(name, 'E-MIR/fork', 'holds', 0.0, any(r.get('cls') == 'P' for r in res), {'length': L, 'sequences': len(res), 'accepted': sum(1 for r in res if r.get('cls') == 'P')})
    # corpus: MIR interpreter == native == reference
    I = TL.interp(); strings = corpus(); nbad = 0; nacc = 0
    for s in strings:
        I.ctx = PathCtx(); I.steps = 0
        try:
            r = I.run(I.fn('parse_extended_formula'), [mkref(s)])
            mir = ('ok', show(r.fields[0].fields[0].chars)) if r.variant == 0 else ('err',)
        except Panic as e: mir = ('panic', str(e))
        except Unsupported as e:
            chk.obligation(f'C05/corpus through the MIR interpreter [unsupported: {str(e)[:150]}]', 'translator-validation', 'inconclusive'); break
        nat = front.native([{'op': 'text', 'what': 'parse_ext', 'text': s}])[0]
        natv = ('ok', nat['ok']['s']) if 'ok' in nat else ('err',) if 'err' in nat else ('panic', nat.get('panic'))
        diffs = native_vs_reference(s)
        nacc += mir[0] == 'ok'
        if mir != natv:
            nbad += 1; chk.obligation(f'C05/corpus {s!r}: MIR interpreter {mir} != native {natv}', 'translator-validation', 'inconclusive')
        if diffs:
            nbad += 1; nm = f'C05/corpus {s!r}'
            chk.obligation(nm, 'native-vs-reference', 'violated'); chk.violation(nm, 'grammar-corpus', {'text': s, 'differences': diffs}, f'{s!r}: ' + '; '.join(diffs)[:300])
    if not nbad: chk.obligation(f'C05/corpus: {len(strings)} string literals of the repository tests: MIR interpreter == native == reference ({nacc} accepted)', 'translator-validation', 'holds', 0.0, nacc > 10, {'strings': len(strings), 'accepted': nacc, 'examples': strings[:3]})
    if chk.unexplored:
        # parts of the symbolic exploration have no verdict on this tree: bounded native enumeration instead (DESIGN.md 3.7)
        from .. import fallback
        fallback.grammar(chk, 'C05')
