"""C12 - attractor and steady-state shortcuts agree with generic evaluation everywhere.  DESIGN.md section 4 / C12."""
import z3
from .. import unicheck as UC, evaltasks as ET, evalnode as EN, trees as TR
from ..oracle import sem as S, gen as G
from ..mirsym.interp import PathCtx, Ptr, Cell, name_char_domain, explore
from .c01 import twin_for

P0, P1 = ('prop', 'v0'), ('prop', 'v1')
X, XX, XXX = ('var', 'x'), ('var', 'xx'), ('var', 'xxx')
W = ('wild', 'w')
def ATTR(v='x', d=None): return ('bind', v, d, ('AG', ('EF', ('var', v))))
def STEADY(v='x', d=None): return ('bind', v, d, ('AX', ('var', v)))

def recognisers(chk):
    """is_attractor_pattern / is_fixed_point_pattern from MIR on every tree skeleton of the shape
    H{a}[in d]: U1 (U2)? ATOM  with symbolic one-character names: true iff the tree is exactly the pattern"""
    I = EN.interp()
    n_paths = 0; bad = []
    atoms = ['var', 'prop', 'true', 'wild']
    def scenario(ctx):
        I.ctx = ctx; I.steps = 0
        a = z3.BitVec('name_a', 32); b = z3.BitVec('name_b', 32)
        ctx.assume(name_char_domain(a)); ctx.assume(name_char_domain(b))
        h = ['bind', 'jump', 'exists', 'forall'][ctx.choose(4, 'hybrid')]
        dom = ctx.choose(2, 'domain')
        depth = ctx.choose(3, 'depth')          # number of unary operators between the binder and the atom: 0, 1, 2
        ops = [list(TR.UN)[ctx.choose(7, f'un{i}')] for i in range(depth)]
        atom = atoms[ctx.choose(4, 'atom')]
        leaf = {'var': ('var', [b]), 'prop': ('prop', [b]), 'true': ('true',), 'wild': ('wild', [b])}[atom]
        body = leaf
        for o in reversed(ops): body = (o, body)
        phi = ('jump', [a], body) if h == 'jump' else (h, [a], ('d' if dom else None), body)
        if h == 'jump' and dom: return None
        tree = TR.build(I, phi)
        ra = I.run(I.fn('is_attractor_pattern'), [Ptr(Cell(tree))])
        rf = I.run(I.fn('is_fixed_point_pattern'), [Ptr(Cell(tree))])
        shape_a = h == 'bind' and not dom and ops == ['AG', 'EF'] and atom == 'var'
        shape_f = h == 'bind' and not dom and ops == ['AX'] and atom == 'var'
        want_a = (a == b) if shape_a else False
        want_f = (a == b) if shape_f else False
        to_b = lambda r: r if z3.is_expr(r) else z3.BoolVal(bool(r))
        ok1, m1 = ctx.valid(to_b(ra) == (want_a if z3.is_expr(want_a) else z3.BoolVal(want_a)))
        ok2, m2 = ctx.valid(to_b(rf) == (want_f if z3.is_expr(want_f) else z3.BoolVal(want_f)))
        return (ok1 and ok2, S.show(_concrete(phi, (m1 or m2))) if not (ok1 and ok2) else None, shape_a or shape_f)
    def _concrete(phi, m):
        def nm(x):
            if isinstance(x, list): return ''.join(chr(m.eval(c, model_completion=True).as_long()) if z3.is_expr(c) else chr(c) for c in x)
            return x
        op = phi[0]
        if op in ('var', 'prop', 'wild'): return (op, nm(phi[1]))
        if op == 'true': return phi
        if op == 'jump': return ('jump', nm(phi[1]), _concrete(phi[2], m))
        if op in S.QUANT: return (op, nm(phi[1]), phi[2], _concrete(phi[3], m))
        return (op,) + tuple(_concrete(c, m) for c in phi[1:])
    pos = 0
    for pr in explore(scenario):
        if pr.value is None: continue
        n_paths += 1
        ok, wit, is_pat = pr.value
        pos += bool(is_pat)
        if not ok: bad.append(wit)
    chk.paths += n_paths
    chk.note_functions(I.executed)
    name = f'C12/E-MIR pattern recognisers: true iff exactly the pattern ({n_paths} skeleton paths, symbolic names)'
    if bad:
        # the recognisers are private: a deviation is a violation of C12 only if the evaluation of the witness formula
        # natively differs from its own semantics (an over-eager but semantically correct recogniser is not a violation)
        confirmed = None
        from ..oracle import ref as R
        I2 = EN.interp()
        for w in bad[:6]:
            from ..mirsym.interp import PathCtx
            I2.ctx = PathCtx()
            try: t = R.parse(I2, [ord(ch) for ch in w], True)
            except R.Reject: continue
            # close the formula and use canonical names: outer 'x' for a free atom variable, 'xx' for the binder
            def names(t_, m):
                op = t_[0]
                if op == 'var': return ('var', m.get(t_[1], 'x'))
                if op == 'prop': return ('prop', 'v0')
                if op == 'wild': return ('wild', 'w')
                if op in ('true', 'false'): return t_
                if op == 'jump': return ('jump', m.get(t_[1], 'x'), names(t_[2], m))
                if op in S.QUANT: return (op, 'xx', None if t_[2] is None else 'd', names(t_[3], {**m, t_[1]: 'xx'}))
                return (op,) + tuple(names(c, m) for c in t_[1:])
            body = names(t, {})
            closings = [('exists', 'x', None, ('EF', body)), ('forall', 'x', None, ('AX', ('or', body, ('var', 'x')))), ('exists', 'x', None, ('jump', 'x', ('EX', ('not', body)))), ('bind', 'x', None, ('EX', body))]
            for inst in UC.instances(['U2', 'C2']):
                sess = UC.Session(inst, 2, [{'phis': [phi], 'entry': 'ext_dirty'} for phi in closings]); chk.native_replays += 1
                for ci, phi in enumerate(closings):
                    b = sess.first(ci)
                    if b is None or not UC.check_equiv(chk, 'C12', sess, phi, b, name + f' [witness {S.show(phi)} on {inst.name}]', 'recogniser'): confirmed = w
        if confirmed is None:
            chk.obligation(name + ' [recogniser deviates from the exact pattern on e.g. ' + bad[0] + ', but every witness evaluates to its own semantics natively: not a violation of C12]', 'E-MIR/fork', 'holds', 0.0, True,
                           {'deviation_witnesses': bad[:3], 'native_evaluation': 'equals explicit semantics'})
    else:
        chk.obligation(name, 'E-MIR/fork', 'holds', 0.0, pos >= 2, {'functions': ['is_attractor_pattern', 'is_fixed_point_pattern'], 'skeleton_paths': n_paths, 'paths_that_are_patterns': pos,
                                                                   'claim': 'recogniser(tree) == (tree is H=bind, no domain, AG EF / AX, variable atom) & (binder name == atom name), names symbolic'})

def contexts():
    fs = [ATTR(), STEADY()]
    for pat in (ATTR, STEADY):
        p = pat()
        for u in G.UN: fs.append((u, p))
        for b in ('and', 'or', 'imp', 'EU', 'AU'): fs += [(b, p, P0), (b, W, p)]
        fs += [('exists', 'x', None, ('and', X, pat('xx'))), ('forall', 'x', None, ('or', ('jump', 'x', pat('xx')), ('EX', X))), ('bind', 'x', None, ('EX', ('and', X, pat('xx')))),
               ('bind', 'x', 'd', pat('xx')), ('exists', 'x', 'd', ('and', ('EX', X), pat('xx'))), ('forall', 'x', 'd', ('imp', X, pat('xx'))),
               ('and', pat(), ('bind', 'x', 'd', pat('xx'))), ('or', ('bind', 'x', 'd', ('not', pat('xx'))), pat()),
               # near misses
               pat('x', 'd'), ('bind', 'x', None, ('exists', 'xx', None, pat('x')[3] if False else (pat('xx')[3][0], ('jump', 'xx', X)) if False else ('and', XX, pat('x')[3]))),
               ]
    fs += [('bind', 'x', None, ('bind', 'xx', None, ('AG', ('EF', X)))), ('bind', 'x', None, ('bind', 'xx', None, ('AX', X))),
           ('bind', 'x', None, ('AG', ('EF', ('and', X, X)))), ('bind', 'x', None, ('AX', ('and', X, X))), ('bind', 'x', None, ('AG', ('EG', X))), ('bind', 'x', None, ('EX', X)),
           ('exists', 'x', None, ('AG', ('EF', X))), ('forall', 'x', None, ('AX', X)), ('bind', 'x', None, ('AG', ('AG', ('EF', X)))), ('bind', 'x', None, ('not', ('AX', X))),
           ('and', ATTR(), STEADY()), ('iff', ATTR(), ('bind', 'x', None, ('AG', ('EF', ('and', X, ('true',)))))), ('iff', STEADY(), ('bind', 'x', None, ('AX', ('or', X, ('false',)))))]
    # the near-miss "pattern with a domain on the binder" nested inside another restricted scope (domains w, p, f are arbitrary sets)
    for pat in (ATTR, STEADY):
        fs += [('bind', 'x', 'w', pat('xx', 'p')), ('exists', 'x', 'd', ('or', ('jump', 'x', P0), pat('xx', 'f'))), ('bind', 'x', 'p', ('EX', pat('xx', 'w'))), ('forall', 'x', 'w', ('or', pat('xx', 'p'), X))]
    # an unused binder whose body talks about the variable of an ENCLOSING quantifier (not a pattern), closed in four ways
    for body in (('AG', ('EF', X)), ('AX', X)):
        nb = ('bind', 'xx', None, body)
        fs += [('exists', 'x', None, ('EF', nb)), ('forall', 'x', None, ('AX', ('or', nb, X))), ('exists', 'x', None, ('jump', 'x', ('EX', ('not', nb)))), ('bind', 'x', None, ('EX', nb))]
    return fs

def run(chk):
    thorough = chk.tier == 'thorough'
    chk.bounds.update({'E-MIR recognisers': 'all skeletons H{a}[in d]: U* ATOM with <= 2 unary operators, every operator / atom kind, symbolic names',
                       'E-MIR eval_node': 'patterns and near-misses in the contexts listed in DESIGN.md C12; n=2, k<=2, c in {0,1}; library attractor search by contract stub (terminal SCC states of each colour within the given vertex set)',
                       'E-UNI': 'the same formulas with the real ITGR + Xie-Beerel search on instances U2, C2, M2 (thorough: S3)'})
    chk.assumptions.append('E-MIR: compute_attractor_states is replaced by its contract (the real search is exercised by E-UNI)')
    from ..run import guard
    guard(chk, 'C12/E-MIR pattern recognisers', recognisers, chk)
    fs = contexts()
    tasks = []
    for i, f in enumerate(fs):
        k = S.quant_depth(f)
        if k > 2: continue
        if not thorough and len(S.labels(f)[1]) >= 2: continue      # two nested domains: minutes per query from MIR; E-UNI decides them in the quick tier
        tasks.append({'n': 2, 'k': k, 'c': 0, 'entry': 'multi_ext', 'phis': [f], 'twin': [twin_for(f)]})
        if k <= 1 and (thorough or (i % 4 == 0 and S.depth(f) <= 3)): tasks.append({'n': 2, 'k': k, 'c': 1, 'entry': 'multi_ext_dirty', 'phis': [f], 'check_unit': True, 'timeout_ms': 600000 if thorough else 60000})
    # batches: the patterns next to each other and next to formulas containing them
    tasks.append({'n': 2, 'k': 2, 'c': 0, 'entry': 'multi_ext_dirty', 'phis': [ATTR(), STEADY(), ('and', ATTR(), ('bind', 'x', 'd', STEADY('xx')))], 'order_mode': 'global'})
    tasks.append({'n': 2, 'k': 2, 'c': 0, 'entry': 'multi_ext_dirty', 'phis': [('bind', 'x', 'd', ATTR('xx')), ATTR(), ('EX', ATTR())], 'order_mode': 'global'})
    ET.run_tasks(chk, 'C12', tasks)
    UC.run_family(chk, 'C12', [(['U2', 'C2'] + (['M2', 'S3'] if thorough else ['M2']), [f for f in fs])], entries=('ext_dirty', 'ext', 'ext_multi_dirty'), check_unit=True)
