"""C02 - wild-card propositions and restricted domains.  DESIGN.md section 4 / C02."""
from .. import unicheck as UC, evaltasks as ET
from ..oracle import sem as S, gen as G
from .c01 import twin_for

P0, P1 = ('prop', 'v0'), ('prop', 'v1')
X, XX, XXX = ('var', 'x'), ('var', 'xx'), ('var', 'xxx')
W, P = ('wild', 'w'), ('wild', 'p')

def bodies(v='x'):
    V = ('var', v)
    return [W, P1, V, ('EX', P0), ('jump', v, ('and', P0, ('AX', V))), ('EX', ('or', V, W)), ('AG', ('EF', ('and', V, W))), ('not', V), ('and', V, ('AX', V)),
            ('EU', ('or', V, W), ('EX', V)), ('AX', P1), ('bind', 'xx', None, ('AX', XX)), ('bind', 'xx', None, ('AG', ('EF', XX)))]

def family():
    fs = []
    for q in ('bind', 'exists', 'forall'):
        for b in bodies(): fs.append((q, 'x', 'd', b))
    fs += [W, ('not', W), ('EX', W), ('and', W, P), ('bind', 'x', None, ('and', X, W)), ('EU', W, P), ('AG', ('imp', W, ('EF', P))),
           ('bind', 'x', 'd', ('bind', 'xx', 'e', ('or', ('EX', XX), ('AX', X)))), ('forall', 'x', 'd', ('exists', 'xx', 'd', ('and', ('jump', 'xx', ('EX', X)), W))),
           ('exists', 'x', 'd', ('forall', 'xx', 'e', ('jump', 'x', ('EF', XX)))), ('bind', 'x', 'd', ('exists', 'xx', 'f', ('jump', 'xx', ('AX', ('or', X, XX))))),
           ('and', ('bind', 'x', 'd', ('EX', X)), ('bind', 'x', 'e', ('EX', X))), ('or', ('bind', 'x', 'd', ('AX', P1)), ('AX', P1)), ('and', ('AX', P1), ('exists', 'x', 'd', ('AX', P1))),
           ('bind', 'x', 'd', ('forall', 'xx', None, ('exists', 'xxx', 'e', ('or', ('jump', 'xxx', ('EX', X)), XX)))),
           ('bind', 'x', 'empty', ('EX', X)), ('exists', 'x', 'empty', W), ('forall', 'x', 'empty', W), ('forall', 'x', 'full', ('EF', X)), ('exists', 'x', 'full', ('and', X, W)),
           ('bind', 'x', 'd', ('bind', 'xx', 'empty', ('true',))), ('forall', 'x', 'd', ('forall', 'xx', 'empty', ('false',)))]
    # a jump to the scope's own variable evaluated before a closed duplicate, the same pair under another domain / outside
    for d1, d2 in (('d', 'e'), ('d', 'f'), ('f', None)):
        mk = lambda d_: ('bind', 'x', d_, ('and', ('jump', 'x', P), ('AX', P1)))
        fs += [('or', mk(d1), mk(d2)), ('and', mk(d1), ('not', mk(d2))), ('or', ('exists', 'x', d1, ('and', ('jump', 'x', ('EX', P)), ('AX', P1))), ('AX', P1))]
    fs += [('exists', 'x', 's1', ('jump', 'x', ('EF', P1))), ('forall', 'x', 's1', ('jump', 'x', ('AX', P1))), ('bind', 'x', 's1', ('EX', X)), ('forall', 'x', 's0', ('or', ('EF', X), W))]
    # forall over a colour-dependent domain whose body holds nowhere in the restricted universe (vacuous truth colour by colour)
    fs += [('forall', 'x', 'd', ('jump', 'x', ('false',))), ('forall', 'x', 'd', ('jump', 'x', ('not', ('wild', 'd')))), ('forall', 'x', 'e', ('and', X, ('not', X))), ('exists', 'x', 'd', ('jump', 'x', ('false',)))]
    return fs

def repeated_domain_family():
    """the same (domain label, variable) used twice under different enclosing scopes, in both evaluation orders"""
    out = []
    inner = lambda: ('exists', 'xx', 'f', ('jump', 'x', XX))
    inner2 = lambda: ('forall', 'xx', 'f', ('or', ('jump', 'xx', ('EX', X)), ('not', XX)))
    for mk in (inner, inner2):
        for d1, d2 in [('d', None), (None, 'd'), ('d', 'e'), ('e', 'd'), ('d', 'f'), ('f', None)]:
            a = ('exists', 'x', d1, mk()); b = ('exists', 'x', d2, mk())
            out += [('or', a, b), ('and', ('not', a), b)]
        out.append(('bind', 'x', 'd', ('and', mk(), ('EX', ('bind', 'x', None, mk())))) if False else ('and', ('bind', 'x', 'd', mk()), ('bind', 'x', None, mk())))
    return out

def heavy(f):
    """nested fixed points over a state variable inside a restricted scope: minutes per query with a colour bit"""
    return S.quant_depth(f) >= 1 and bool(S.labels(f)[1]) and bool(S.ops_used(f) & {'AG', 'EF', 'EU', 'AU', 'AF', 'EG'})

def readme_pairs():
    out = []
    for phi in [W, P1, ('EX', X), ('AG', ('EF', ('and', X, W))), ('not', X), ('bind', 'xx', None, ('AX', XX)), ('AX', P1), ('EU', ('or', X, P0), W)]:
        out.append((('bind', 'x', 'd', phi), ('bind', 'x', None, ('and', ('wild', 'd'), phi))))
        out.append((('exists', 'x', 'd', ('jump', 'x', phi)), ('exists', 'x', None, ('jump', 'x', ('and', ('wild', 'd'), phi)))))
        out.append((('forall', 'x', 'd', ('jump', 'x', phi)), ('forall', 'x', None, ('jump', 'x', ('imp', ('wild', 'd'), phi)))))
    return out

def run(chk):
    thorough = chk.tier == 'thorough'
    chk.bounds.update({'E-MIR': 'string entry points executed from MIR; n=2, k<=3, colour bits c in {0,1} (c=1: domains may be empty for one colour only); all transition systems, all wild-card / domain sets inside the unit set and independent of the auxiliary variables',
                       'E-UNI': 'instances U2, C2, M2 (thorough: S3); d is empty exactly for the colours where e may be non-empty; labels empty/full are the empty set and the unit set'})
    chk.assumptions += ['E-MIR: bit-vector library model; with_custom_context returns Err for an empty unit set', 'context sets are subsets of the unit set that do not depend on auxiliary variables (the documented precondition)']
    from .. import conformance
    from ..run import guard as _guard
    _guard(chk, 'library-model conformance', conformance.run, chk, 2, 1); _guard(chk, 'library-model conformance', conformance.run, chk, 3, 0, samples=2)
    fs = family()
    tasks = []
    skip_fixed = {'empty', 'full'}
    for f in fs:
        labs = S.labels(f)[0] | S.labels(f)[1]
        if labs & skip_fixed: continue     # fixed sets are exercised by E-UNI (the symbolic d covers empty and full anyway)
        k = S.quant_depth(f)
        tasks.append({'n': 2, 'k': k, 'c': 0, 'entry': 'multi_ext', 'phis': [f], 'twin': [twin_for(f)]})
        if k <= 1 and (thorough or (len(tasks) % 3 == 0 and not heavy(f))): tasks.append({'n': 2, 'k': k, 'c': 1, 'entry': 'multi_ext_dirty', 'phis': [f], 'check_unit': True, 'timeout_ms': 600000 if thorough else 60000})
    # nested restricted domains with a colour bit: the two domains may be non-empty for different colours only
    for f in [('bind', 'x', 'd', ('bind', 'xx', 'e', ('or', ('EX', XX), ('AX', X)))), ('exists', 'x', 'd', ('forall', 'xx', 'e', ('jump', 'x', ('EX', XX)))), ('forall', 'x', 'd', ('exists', 'xx', 'e', ('and', XX, ('EX', X))))]:
        tasks.append({'n': 2, 'k': 2, 'c': 1, 'entry': 'multi_ext_dirty', 'phis': [f], 'check_unit': True, 'timeout_ms': 120000})
    rep = repeated_domain_family()
    for f in rep[::1 if thorough else 3]:
        tasks.append({'n': 2, 'k': 2, 'c': 0, 'entry': 'multi_ext', 'phis': [f], 'timeout_ms': 300000 if thorough else 60000})
    for (l, r) in readme_pairs():
        tasks.append({'n': 2, 'k': S.quant_depth(l), 'c': 0, 'entry': 'multi_ext_dirty', 'phis': [l, r], 'equal_pairs': [(0, 1)]})
    for (l, r) in readme_pairs()[:9 if thorough else 3]:
        if S.quant_depth(l) <= 1 and (thorough or not heavy(l)): tasks.append({'n': 2, 'k': S.quant_depth(l), 'c': 1, 'entry': 'multi_ext_dirty', 'phis': [l, r], 'equal_pairs': [(0, 1)]})
    ET.run_tasks(chk, 'C02', tasks)
    rnd = [G.random_formula(chk.rng, 3, ['v0', 'v1'], wild=('w', 'p'), doms=('d', 'e', 'f')) for _ in range(120 if thorough else 20)]
    rnd = [f for f in rnd if S.labels(f)[0] | S.labels(f)[1]]
    pairs = [('iff', l, r) for (l, r) in readme_pairs()]
    UC.run_family(chk, 'C02', [(['U2', 'C2'] + (['M2'] if thorough else []), fs + rnd + rep)], entries=('ext_dirty', 'ext', 'ext_multi_dirty'), check_unit=True)
    # README equivalences end to end: the iff-formula must evaluate to the unit set
    UC.run_family(chk, 'C02', [(['U2', 'C2'], pairs)], entries=('ext_dirty',))
    small = [f for sz in (2, 3, 4) for f in G.enumerate_formulas(sz)] + (G.sample_small(chk.rng, 3000, sizes=(5,)) if thorough else [])
    if not thorough: small = G.sample_small(chk.rng, 300, sizes=(3, 4, 5))
    small = [f for f in small if S.labels(f)[0] | S.labels(f)[1]]
    chk.bounds['E-UNI sweep'] = f'{len(small)} extended formulas over a reduced alphabet (wild-card w, domain d): ' + ('every formula with <= 4 nodes + 3000 with 5 nodes' if thorough else 'seed-chosen sample of the formulas with 3..5 nodes')
    UC.sweep(chk, 'C02', small, which=('U2', 'C2') if thorough else ('U2',), check_unit=True)

