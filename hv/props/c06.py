"""C06 - printing and parsing are inverse; syntax trees are internally consistent.  DESIGN.md section 4 / C06."""
from .. import textlab as TL, front
from ..oracle import ref as R

def consistent(j):
    """stored text / height of a native tree JSON against the canonical rendering of its structure (every node)"""
    t = TL.tree_from_json(j)
    if j['s'] != ''.join(chr(c) for c in R.render(t)): return f"stored text {j['s']!r} != canonical rendering {''.join(chr(c) for c in R.render(t))!r}"
    if j['h'] != R.height(t): return f"stored height {j['h']} != {R.height(t)} for {j['s']}"
    n = j['n']
    for k in ('c', 'l', 'r'):
        if k in n:
            r = consistent(n[k])
            if r: return r
    return None

def native_roundtrip(tree_json):
    r = front.native([{'op': 'text', 'what': 'build_tree', 'tree': tree_json}])[0]
    if 'fatal' in r or 'fatal_panic' in r: return [f'native constructor failed: {r}']
    diffs = []
    c = consistent(r['built'])
    if c: diffs.append('constructed tree: ' + c)
    if 'ok' not in r: diffs.append(f"printed tree {r['built']['s']!r} does not parse: {r.get('err') or r.get('panic')}")
    elif r['ok'] != r['built']: diffs.append(f"parse(print(tree)) != tree for {r['built']['s']!r} (reparsed: {r['ok']['s']!r}, heights {r['ok']['h']} vs {r['built']['h']}, structure equal: {TL.tree_from_json(r['ok']) == TL.tree_from_json(r['built'])})")
    return diffs

def run_scenario(chk, pid, scen, params, label, replay, signature):
    res, info = TL.explore_parallel(scen, params, budget=60)
    chk.paths += len(res); chk.queries += info['queries']; chk.note_functions(info['functions']); chk.models |= info['models']
    name = f'{pid}/E-MIR {label}'
    if info['errors']: chk.obligation(name + f' ({len(res)} paths) [' + info['errors'][0][:150] + ']', 'E-MIR/fork', 'inconclusive'); return res
    groups = {}
    for r in res: groups.setdefault(r.get('group', ''), []).append(r)
    for g, rs in sorted(groups.items(), key=lambda kv: str(kv[0])):
        nm = f'{name} [{g}] ({len(rs)} paths)' if g != '' else f'{name} ({len(rs)} paths)'
        bad = [r for r in rs if r.get('ok') is not True]
        seen = set()
        for b in bad[:6]:
            if b.get('tree') is None:
                chk.obligation(nm + ' [' + str(b.get('panic') or b.get('why'))[:120] + ': no witness]', 'E-MIR/fork', 'inconclusive'); continue
            key = str(b['tree'])
            if key in seen: continue
            seen.add(key); chk.native_replays += 1
            diffs = replay(b['tree'])
            if diffs: chk.obligation(nm, 'E-MIR/fork', 'violated'); chk.violation(nm, signature, {'tree': b['tree'], 'mir': b.get('why'), 'differences': diffs}, '; '.join(diffs)[:500])
            else: chk.obligation(nm + f' (counterexample: {b.get("why")} does not reproduce natively)', 'E-MIR/fork', 'inconclusive')
        if not bad: chk.obligation(nm, 'E-MIR/fork', 'holds', 0.0, len(rs) > 1 or len(groups) > 3, {'scenario': scen, 'params': params, 'group': g, 'paths': len(rs)})
    return res

def run(chk):
    thorough = chk.tier == 'thorough'
    chk.bounds['families added after seeded changes'] = 'identifiers made of an operator prefix (EX, AG, AU, ..) plus symbolic characters; native fallback (enumeration) only if a part is unexplored'
    chk.bounds.update({'shapes': 'every operator / hybrid operator (with and without domain) / jump at the root over 13 child templates (thorough: plus a unary operator between root and child) -- trees of height <= 3 (4)',
                       'names': f'10 shapes with one symbolic identifier of 1..{3 if thorough else 2} characters (name characters incl. non-ASCII representatives) in every name slot; identifiers are assumed not to be reserved words',
                       'parser / preprocessing outputs': 'stored text and height are checked on every accepted path of C05 and C07'})
    chk.assumptions.append('"valid identifiers" = non-empty strings of name characters that are not reserved words (EX..AW, 3, V, true/True/1, false/False/0)')
    run_scenario(chk, 'C06', 'c06', {'mode': 'shape', 'deep': 1 if thorough else 0}, 'constructors + Display + parser round trip on all root operators x child templates', native_roundtrip, 'roundtrip')
    for L in (1, 2) + ((3,) if thorough else ()):
        run_scenario(chk, 'C06', 'c06', {'mode': 'names', 'len': L}, f'round trip with a symbolic identifier of {L} characters in every slot', native_roundtrip, 'roundtrip-names')
    for L in (1,) + ((2,) if thorough else ()):
        run_scenario(chk, 'C06', 'c06', {'mode': 'names', 'len': L, 'prefix': 1}, f'round trip with an identifier made of an operator prefix (EX, AG, AU, ..) and {L} symbolic character(s) in every slot', native_roundtrip, 'roundtrip-names')
    chk.bounds['near-reserved names'] = 'identifiers that are case variants of true / false (each character upper or lower case, decided by the solver; reserved spellings excluded) in every name slot of the 10 shapes'
    run_scenario(chk, 'C06', 'c06', {'mode': 'names', 'len': 0, 'near': 1}, 'round trip with an identifier that is a case variant of a reserved constant word (TRUE, tRuE, FALSE, ..) in every slot', native_roundtrip, 'roundtrip-names')
    # parser and preprocessing outputs (stored text / height consistency is part of these scenarios)
    res = run_scenario(chk, 'C06', 'c05_chars', {'L': 3 if thorough else 2}, 'trees produced by the parser: stored text / height (all strings of symbolic characters)', lambda t: [], 'parser-output')
    from . import c07
    run_scenario(chk, 'C06', 'c07', {'len': 1}, 'trees produced by preprocessing: stored text / height', c07.native_rename, 'preprocessing-output')
    if chk.unexplored:
        from .. import fallback
        fallback.roundtrip(chk, 'C06', native_roundtrip)
        fallback.preprocessing(chk, 'C06', c07.native_rename, signature='preprocessing-output')
