"""C19 - the aeon-to-bnet converter preserves the family of update functions.  DESIGN.md section 4 / C19."""
import itertools
from .. import convlab as CL, front

LEVEL = 'translation_validation'

EXPR = ['f(X)', 'f(X, Y)', 'f(Y, X)', 'f(X, X)', 'f(X, f(Y, X))', 'g(f(X, Y))', 'f(X & Y)', '!f(X) | k', 'k', 'true', 'false', 'X & !Y', 'f(X) & g(X)', 'f(X, Y) & !f(Y, X)', 'X | (k & g(Y))',
        'f(X) | !f(X)', 'f(!X)', 'h(X, Y, Z)', 'h(Z, X, X) ^ f(Y)', '(X => f(Y)) <=> k', 'f(g(X))', 'k & k2 | !X', 'f(X, Y) | f_11', 'g(X) & g_0 & !g_1',
        # constants and zero-arity parameters as ARGUMENTS of uninterpreted functions, shared symbols at different nesting depths
        'f(X, true)', 'f(false, X) | f(X, Y)', 'f(X, true) & !f(true, X)', 'f(X, k)', 'g(f(X, false), Y)', 'f(g(X)) & !g(X)', 'f(k) | k', 'h(X, true, Y) ^ h(false, X, Y)']

def fixed_skeletons():
    return ['a -?? x\nb -?? y\na -?? y\n$x: f(a, true)\n$y: f(a, b)\n', 'a -?? x\na -?? y\n$x: f(g(a))\n$y: g(a)\n', 'a -?? x\n$x: f(true, a) & !f(a, false)\n',
            'a -> b\nb -| a\nc -? a\n', 'a -> b\nc -? b\n$b: f(a, c) & !k\n', 'a -> b\nb -> a\na -> a\n$b: f(a)\n$a: f(b) & a\n', 'a -?? a\nb -?? a\nc -?? a\n',
            'a -> b\n$a: k\n', 'a -> b\nb -> c\nc -| a\n$c: true\n', 'a -> b\n$b: !a\nb -> c\n$c: b | !b\n', 'a -> b\na -> c\n$b: f(a)\n$c: !f(a)\n',
            'a -> b\nc -> b\n$b: f(a, c) & !f(c, a)\n', '$a: k\nb -?? b\n$b: !f(b) | k\n', '$a: !k\n$b: k & k2\nc -> c\n$c: c | k2\n', '$a: true\nb -> b\n', 'a -> b\nc -> b\n$b: f(a, f(c, a))\n', 'a -> b\n$b: f(a) & f_1\n', 'a -? y\nx -> x\na -> x\ny -> x\n$x: a | y_0 | x\n']

def gen_skeletons(rng, n):
    names = ['a', 'b', 'c']
    out = []
    for _ in range(n):
        lines = []; 
        for t in names:
            kind = rng.choice(['input', 'implicit', 'explicit', 'explicit'])
            if kind == 'input': continue
            regs = rng.sample(names, rng.choice([1, 2, 3]))
            if kind == 'implicit':
                for r in regs: lines.append(f'{r} {rng.choice(["->", "-|", "-?", "-??"])} {t}')
            else:
                e = rng.choice(EXPR)
                used = [x for x in ('X', 'Y', 'Z') if x in e]
                regs = (regs + [r for r in names if r not in regs])[:max(len(used), 0)]
                for u, r in zip(used, regs): e = e.replace(u, r)
                for r in regs: lines.append(f'{r} -?? {t}')
                lines.append(f'${t}: {e}')
        if lines: out.append('\n'.join(lines) + '\n')
    return out

def targets_of(info): return [v for v in range(len(info['vars'])) if info['regulators'][v] or info['functions'][v] is not None]

def check_family(chk, name, info, fns, params, targets, engine, aeon, extra):
    """solver obligations on one set of output functions.  Returns list of failure descriptions"""
    fails = []
    missing = [info['vars'][v] for v in targets if v not in fns]
    if missing: return [f'no update function in the output for {missing}']
    res = CL.family_equal(info, fns, params, targets)
    for what, (verdict, model, secs) in res.items():
        chk.queries += 1; chk.solver_s += secs
        if verdict == 'sat': fails.append(f'{what} fails (counterexample: {model})')
        elif verdict != 'unsat': fails.append(f'{what}: solver {verdict}')
    return fails

def run(chk):
    thorough = chk.tier == 'thorough'
    chk.bounds['families added after seeded changes'] = 'constants and zero-arity parameters as arguments of uninterpreted functions; shared symbols at different nesting depths'
    sks = fixed_skeletons() + gen_skeletons(chk.rng, 150 if thorough else 40)
    chk.bounds.update({'skeletons': f'{len(sks)} aeon networks with <= 3 variables (4 in two fixed ones): implicit functions of 1-3 regulators, explicit functions with uninterpreted symbols of arity 0-3 (repeated, swapped, nested, compound arguments), constants, negations, inputs',
                       'solver': 'truth tables of all unknown functions, all fresh constants and all input valuations are Boolean solver variables: {outputs(., c) | c} == {inputs_t | t} as two quantified obligations (forall c exists t / forall t exists c) over the tuple of all target variables',
                       'layers': 'E-MIR: flatten_update_function / flatten_fn_update / explode_function executed from the MIR of the binary on a model of the BooleanNetwork API; run-then-prove: the real binary on the same skeletons, its bnet output parsed independently'})
    chk.assumptions += ['E-MIR: model of BooleanNetwork (regulators sorted, find/add_parameter by name, set_update_function checks arguments), FnUpdate constructors structural', 'regulation constraints (monotonicity, observability) are dropped by the converter, as the property states']
    nprog = 0; ndis = 0
    for aeon in sks:
        info = front.native([{'op': 'netinfo', 'aeon': aeon}])[0]
        if 'fatal' in info or 'fatal_panic' in info: continue          # the library rejects the skeleton itself
        nprog += 1
        targets = targets_of(info)
        tag = aeon.strip().replace('\n', ' ; ')
        # ---- layer 1: the functions from MIR
        from ..mirsym.interp import Unsupported
        try: net, out = CL.run_mir(info)
        except Unsupported as e:
            # the symbolic layer has no rule for a construct of the working tree: the real binary (layer 2) still decides
            net, out = None, ('unexplored', str(e))
            if not any('C19/E-MIR layer' in u for u in chk.unexplored): chk.obligation(f'C19/E-MIR layer [unsupported: {str(e)[:160]}]', 'E-MIR/fork', 'inconclusive')
        chk.note_functions(CL.interp().executed); chk.models |= CL.interp().models_used
        mir_fails = []
        if out[0] == 'unexplored': pass
        elif out[0] == 'panic': mir_fails = ['MIR execution panics: ' + out[1]]
        else:
            fns = {v: CL.fn_to_ast(net.functions[v].v.fields[0]) for v in range(len(net.vars)) if net.functions[v].v.variant == 1}
            # no other targets are introduced; variables without regulators are untouched
            touched = set(net.set_calls)
            extra = [info['vars'][v] for v in touched if v not in targets]
            if extra: mir_fails.append(f'update function set for {extra}, which have neither regulators nor a function')
            leftover = [info['vars'][v] for v in targets if any(net.params[p][1] > 0 for p in CL._params_of(fns[v]))] if all(v in fns for v in targets) else []
            if leftover: mir_fails.append(f'output for {leftover} still contains an uninterpreted function of positive arity')
            mir_fails += check_family(chk, tag, info, fns, net.params, targets, 'E-MIR', aeon, None)
        # ---- layer 2: the real binary
        b = CL.run_binary(aeon)
        bin_fails = []
        if b[0] != 'ok': bin_fails = ['the converter binary fails: ' + str(b[1])[:200]]
        else:
            fo, consts = CL.parse_bnet(b[1], info['vars'])
            unknown = [t for t in fo if t not in info['vars']]
            if unknown: bin_fails.append(f'output has targets {unknown} that are not variables of the input')
            fnsb = {info['vars'].index(k): v for k, v in fo.items() if k in info['vars']}
            extra = [info['vars'][v] for v in fnsb if v not in targets]
            if extra: bin_fails.append(f'output has update functions for {extra}, which have neither regulators nor a function')
            bin_fails += check_family(chk, tag, info, fnsb, [(c, 0) for c in consts], targets, 'binary', aeon, None)
        ndis += bool(mir_fails) + bool(bin_fails)
        name = f'C19 skeleton [{tag}]'
        if bin_fails:
            chk.native_replays += 1
            chk.obligation(name, 'run-then-prove', 'violated')
            chk.violation(name, 'converter', {'aeon': aeon, 'binary_output': b[1] if b[0] == 'ok' else None, 'failures': bin_fails, 'mir_failures': mir_fails}, '; '.join(bin_fails)[:500])
        elif mir_fails:
            chk.obligation(name + ' (E-MIR failure does not reproduce on the real binary: ' + mir_fails[0][:120] + ')', 'E-MIR/fork', 'inconclusive')
        else:
            chk.obligation(name, 'E-MIR + run-then-prove' if out[0] != 'unexplored' else 'run-then-prove', 'holds', 0.0, bool(targets), {'aeon': aeon, 'targets': [info['vars'][v] for v in targets], 'output': b[1].strip().split('\n')[1:4]})
    chk.extra['programs'] = nprog; chk.extra['disagreements_checked'] = ndis
