"""C11 - fixed-point laws of the temporal operators.  DESIGN.md section 4 / C11.
E-MIR merge mode on the real kernels (all transition systems with n variables, all argument sets), plus E-UNI on the
real libraries (laws as extended formulas over wild-cards; EF/AG/EU against the library's reachability procedures)."""
import z3
from .. import kernels as KL, unicheck as UC, uni
from ..oracle import sem as S, gen as G

A, B = ('wild', 'a'), ('wild', 'b')

def run(chk):
    thorough = chk.tier == 'thorough'
    chk.bounds['families added after seeded changes'] = 'one-way instance W2 (v0 never falls, v1 never rises): unfolding law and fixpoint semantics of EU / AU / EW / AW for every ordered pair of distinct conjunctions of literals, each evaluated as its own call; laws u1 u2 w <=> u1 (true & u2 w) for nested unary temporal operators'
    configs = [(2, 0), (2, 1), (3, 0)]      # (3, 1) - three variables plus a colour bit with a symbolic mask - ran > 80 min in one process without finishing: not run, not claimed
    chk.bounds.update({'E-MIR': f'(n, colour bits) in {configs}: all asynchronous transition systems on n variables (n=3: 2^24), every unit set that is a product of valid colours, every argument set inside it',
                       'loop_unwinding': 'gfp/lfp loops 2^n+2, saturation 2^(n+c)+2, each with a solver-discharged unwinding assertion',
                       'outside': 'n >= 4; benchmark-size models ("models of any size" is not claimed)'})
    chk.assumptions += ['E-MIR: biodivine set operations follow the bit-vector model of DESIGN.md 3.4 (var_pre = flip & can-update, pre = union over variables)',
                        'the progress callback has no effect on the computed sets']
    from .. import conformance
    from ..run import guard as _guard
    _guard(chk, 'library-model conformance', conformance.run, chk, 2, 1); _guard(chk, 'library-model conformance', conformance.run, chk, 3, 0, samples=2)
    from ..run import run_parallel
    run_parallel(chk, 'hv.props.c11', 'kernel_laws', [(n, c, thorough) for n, c in configs])
    e_uni(chk, thorough)
    if thorough: beyond_bound(chk)

def kernel_laws(chk, cfg):
    n, c, thorough = cfg
    if True:
        lab = KL.Lab(chk, n, c)
        M = lab.M
        a, b, a2 = lab.set('a'), lab.set('b'), lab.set('a2')
        st, cb = lab.steady, lab.cb
        neg = lambda x: M.unit & ~x
        K = {}
        def k1(name, x):
            key = (name, x.get_id())
            if key not in K:
                K[key] = lab.run({'EX': 'eval_ex', 'AX': 'eval_ax', 'EF': 'eval_ef_saturated', 'AF': 'eval_af', 'EG': 'eval_eg', 'AG': 'eval_ag'}[name],
                                 {'EX': [x, st], 'AX': [x, st], 'EF': [x, cb], 'AF': [x, st, cb], 'EG': [x, st, cb], 'AG': [x, cb]}[name])
            return K[key]
        def k2(name, x, y):
            key = (name, x.get_id(), y.get_id())
            if key not in K:
                K[key] = lab.run({'EU': 'eval_eu_saturated', 'AU': 'eval_au', 'EW': 'eval_ew', 'AW': 'eval_aw'}[name],
                                 {'EU': [x, y, cb], 'AU': [x, y, st, cb], 'EW': [x, y, st, cb], 'AW': [x, y, cb]}[name])
            return K[key]
        wild = {'a': a, 'b': b, 'a2': a2}
        # --- equality with the least / greatest fixed point (explicit semantics)
        for op in ('EX', 'AX', 'EF', 'AF', 'EG', 'AG'):
            r = k1(op, a); sp = lab.spec((op, A), wild)
            other = {'EX': 'AX', 'AX': 'EX', 'EF': 'AF', 'AF': 'EF', 'EG': 'AG', 'AG': 'EG'}[op]
            KL.require(lab, f'eval {op} == explicit semantics of {op}', r == sp, ('spec', (op, A)), twin=(r == lab.spec((other, A), wild)), impl=r, spec=sp)
        for op in ('EU', 'AU'):
            r = k2(op, a, b); sp = lab.spec((op, A, B), wild)
            KL.require(lab, f'eval {op} == explicit semantics of {op}', r == sp, ('spec', (op, A, B)), twin=(r == lab.spec(('EU' if op == 'AU' else 'AU', A, B), wild)), impl=r, spec=sp)
        # --- fixed-point characterisations, all on terms produced by the real code
        ef, eg, af, ag = k1('EF', a), k1('EG', a), k1('AF', a), k1('AG', a)
        eu, au = k2('EU', a, b), k2('AU', a, b)
        def law(name, L, R, fl, fr, twin=None):
            KL.require(lab, name, L == R, ('eq', fl, fr), twin=twin, diff=L ^ R)
        law('EF a == a | EX EF a', ef, a | k1('EX', ef), ('EF', A), ('or', A, ('EX', ('EF', A))), twin=(ef == (a & k1('EX', ef))))
        law('EG a == a & EX EG a', eg, a & k1('EX', eg), ('EG', A), ('and', A, ('EX', ('EG', A))), twin=(eg == (a | k1('EX', eg))))
        law('AF a == a | AX AF a', af, a | k1('AX', af), ('AF', A), ('or', A, ('AX', ('AF', A))))
        law('AG a == a & AX AG a', ag, a & k1('AX', ag), ('AG', A), ('and', A, ('AX', ('AG', A))))
        law('E[a U b] == b | (a & EX E[a U b])', eu, b | (a & k1('EX', eu)), ('EU', A, B), ('or', B, ('and', A, ('EX', ('EU', A, B)))), twin=(eu == (b | k1('EX', eu))))
        law('A[a U b] == b | (a & AX A[a U b])', au, b | (a & k1('AX', au)), ('AU', A, B), ('or', B, ('and', A, ('AX', ('AU', A, B)))), twin=(au == (b | k1('AX', au))))
        # --- dualities
        law('AX a == !EX !a', k1('AX', a), neg(k1('EX', neg(a))), ('AX', A), ('not', ('EX', ('not', A))), twin=(k1('AX', a) == k1('EX', a)))
        law('AF a == !EG !a', af, neg(k1('EG', neg(a))), ('AF', A), ('not', ('EG', ('not', A))))
        law('AG a == !EF !a', ag, neg(k1('EF', neg(a))), ('AG', A), ('not', ('EF', ('not', A))))
        law('EF a == E[true U a]', ef, k2('EU', M.unit, a), ('EF', A), ('EU', ('true',), A))
        law('AF a == A[true U a]', af, k2('AU', M.unit, a), ('AF', A), ('AU', ('true',), A))
        # --- monotonicity (a <= a2)
        A2 = ('wild', 'a2')
        sub = (a & ~a2) == 0
        def mono(name, L, R, fl, fr):
            v, nt = lab.prove(name, (L & ~R) == 0, extra_pre=[sub], twin=(R & ~L) == 0)
            full = f'{name} [n={n} c={c}]'
            if v.status == 'unsat': chk.obligation(full, 'E-MIR/merge', 'holds', v.seconds, nt, {'law': ['a <= a2 implies', S.show(fl), '<=', S.show(fr)], 'n': n, 'verdict': 'unsat'})
            elif v.status == 'unknown': chk.obligation(full, 'E-MIR/merge', 'timeout', v.seconds)
            else:
                w = KL.RP.kernel_witness(lab, v.model, L & ~R) or KL.first_witness(lab, v.model)
                res = KL.native_law(n, w['T'], w['sets'], ('sub', fl, fr)); chk.native_replays += 1
                if res['violated']:
                    chk.obligation(full, 'E-MIR/merge', 'violated', v.seconds)
                    chk.violation(full, 'monotonicity', {'witness': {'T': {f'{i},{s}': t for (i, s), t in w['T'].items()}, 'sets': {k_: sorted(x) for k_, x in w['sets'].items()}}, 'native': res}, f'{name}: {res["what"]}')
                else: chk.obligation(full + ' (does not reproduce)', 'E-MIR/merge', 'inconclusive', v.seconds)
        for op in ('EX', 'AX', 'EF', 'AF', 'EG', 'AG'):
            mono(f'{op} monotone', k1(op, a), k1(op, a2), (op, A), (op, A2))
        for op in ('EU', 'AU') + (('EW', 'AW') if thorough or n == 2 else ()):
            mono(f'{op} monotone in the first argument', k2(op, a, b), k2(op, a2, b), (op, A, B), (op, A2, B))
            mono(f'{op} monotone in the second argument', k2(op, b, a), k2(op, b, a2), (op, B, A), (op, B, A2))
        # --- reachability characterisations on the model of the library procedures
        rb = a
        for _ in range(M.NS): rb = rb | M.pre(rb)                 # reach_backward: lfp Z. a | pre(Z)
        law('EF a == backward reachability (lfp Z. a | pre Z)', ef, rb, ('EF', A), ('EU', ('true',), A))
        tf = a
        for _ in range(M.NS): tf = tf & ~M.pre(M.unit & ~tf)      # trap_forward: largest subset closed under successors
        law('AG a == largest forward-closed subset of a', ag, tf, ('AG', A), ('not', ('EF', ('not', A))))
        cr = b
        for _ in range(M.NS): cr = cr | (a & M.pre(cr))
        law('E[a U b] == backward reachability of b constrained to a', eu, cr, ('EU', A, B), ('EU', A, B))
        # --- deadlock states behave as self-loops
        law('EX a & steady == a & steady', k1('EX', a) & st, a & st, ('and', ('EX', A), ('bind', 'x', None, ('AX', ('var', 'x')))), ('and', A, ('bind', 'x', None, ('AX', ('var', 'x')))), twin=((k1('EX', a) & st) == st))
        law('AX a & steady == a & steady', k1('AX', a) & st, a & st, ('and', ('AX', A), ('bind', 'x', None, ('AX', ('var', 'x')))), ('and', A, ('bind', 'x', None, ('AX', ('var', 'x')))))

def e_uni(chk, thorough):
    """the same laws through the real libraries: law formulas must evaluate to the whole unit set; EF/AG/EU against
    reach_backward / trap_forward / Reachability::reach_bwd of the library"""
    W, P = ('wild', 'w'), ('wild', 'p')
    laws = [('iff', ('EF', W), ('or', W, ('EX', ('EF', W)))), ('iff', ('EG', W), ('and', W, ('EX', ('EG', W)))),
            ('iff', ('AU', W, P), ('or', P, ('and', W, ('AX', ('AU', W, P))))), ('iff', ('EU', W, P), ('or', P, ('and', W, ('EX', ('EU', W, P))))),
            ('iff', ('AF', W), ('or', W, ('AX', ('AF', W)))), ('iff', ('AG', W), ('and', W, ('AX', ('AG', W)))),
            ('iff', ('AX', W), ('not', ('EX', ('not', W)))), ('iff', ('AF', W), ('not', ('EG', ('not', W)))), ('iff', ('AG', W), ('not', ('EF', ('not', W)))),
            ('imp', ('EF', ('and', W, P)), ('EF', W)), ('imp', ('AG', ('and', W, P)), ('AG', W)), ('imp', ('EG', ('and', W, P)), ('EG', P)),
            ('imp', ('EU', ('and', W, P), P), ('EU', W, P)), ('imp', ('AU', W, ('and', W, P)), ('AU', W, P)), ('imp', ('AX', ('and', W, P)), ('AX', W)),
            ('imp', ('and', W, ('bind', 'x', None, ('AX', ('var', 'x')))), ('EX', W))]
    # an operator applied directly to itself (or to another one) means two steps / two fixed points: compare with the same
    # formula whose inner application is hidden behind a conjunction with true
    UT = ('EX', 'AX', 'EF', 'AF', 'EG', 'AG')
    laws += [('iff', (u1, (u2, W)), (u1, ('and', ('true',), (u2, W)))) for u1 in UT for u2 in UT if u1 == u2 or (u1[1] == u2[1])]
    # an operand that is empty (or everything) everywhere: weak untils degenerate to EG / AG, strong ones to false / the other operand
    F_, T_ = ('false',), ('true',); CONTRA = ('and', P, ('not', P))
    laws += [('iff', ('EW', W, F_), ('EG', W)), ('iff', ('AW', W, F_), ('AG', W)), ('iff', ('EW', W, CONTRA), ('EG', W)), ('iff', ('AW', W, CONTRA), ('AG', W)),
             ('not', ('EU', W, F_)), ('not', ('AU', W, CONTRA)), ('iff', ('EU', T_, W), ('EF', W)), ('iff', ('AU', T_, W), ('AF', W)), ('iff', ('EW', F_, W), W), ('iff', ('AW', F_, W), W),
             ('iff', ('EX', F_), F_), ('AX', T_), ('iff', ('EG', T_), T_), ('iff', ('AF', F_), F_)]
    laws += [('iff', ('EX', ('EX', W)), ('not', ('AX', ('AX', ('not', W))))), ('iff', ('AX', ('AX', W)), ('not', ('EX', ('EX', ('not', W)))))]
    one_way(chk, thorough)
    chk.bounds['E-UNI'] = 'instances U2, C2 (2 variables, all colours; constrained regulations) and S3 (3 variables, 2 regulators each, 2^12 colours); wild-card sets are arbitrary coloured sets (uninterpreted n-ary parameters)'
    for inst in UC.instances(['U2', 'C2'] + (['S3'] if thorough else [])):
        fl = [f for f in laws if inst.name != 'S3' or 'p' not in S.labels(f)[0]]
        sess = UC.Session(inst, 1, [{'phis': [f]} for f in fl] + [{'phis': [('EF', W)]}, {'phis': [('AG', W)]}] + ([{'phis': [('EU', W, P)]}] if inst.name != 'S3' else []))
        dec = sess.dec
        for f, r in zip(fl, sess.runs):
            name = f'C11/E-UNI {inst.name}: law {S.show(f)} == true'
            if 'ok' not in r: chk.obligation(name, 'E-UNI', 'violated'); chk.violation(name, 'law-error', {'answer': r, 'formula': S.show(f)}, f'{S.show(f)}: {r}'); continue
            v = uni.decide([dec.unit, z3.Not(dec.bdd(r['ok']))]); chk.queries += 1
            if v.status == 'unsat': chk.obligation(name, 'E-UNI', 'holds', v.seconds, True, {'formula': S.show(f), 'instance': inst.name, 'query': 'exists colour,state: unit & not result', 'verdict': 'unsat'})
            elif v.status == 'sat': UC.confirm(chk, 'C11', sess, f, r['ok'], v.model, name, 'law')
            else: chk.obligation(name, 'E-UNI', 'timeout', v.seconds)
        # library procedures
        from .. import front
        job = dict(sess.job); job['runs'] = []; job['libops'] = [{'op': 'reach_backward', 'a': {'t': 'ref', 'name': 'w'}}, {'op': 'trap_forward', 'a': {'t': 'ref', 'name': 'w'}}] + \
            ([{'op': 'reach_bwd_within', 'a': {'t': 'ref', 'name': 'p'}, 'b': {'t': 'ref', 'name': 'w'}}] if inst.name != 'S3' else [])
        ans = front.native([job])[0]
        nl = len(fl)
        pairs = [('EF %w% == SymbolicAsyncGraph::reach_backward(w)', sess.runs[nl], ans['libops'][0]), ('AG %w% == SymbolicAsyncGraph::trap_forward(w)', sess.runs[nl + 1], ans['libops'][1])]
        if inst.name != 'S3': pairs.append(('%w% EU %p% == Reachability::reach_bwd(p) in the graph restricted to w | p', sess.runs[nl + 2], ans['libops'][2]))
        for name, r, lib in pairs:
            full = f'C11/E-UNI {inst.name}: {name}'
            v = uni.decide([dec.unit, dec.bdd(r['ok']) != dec.bdd(lib)]); chk.queries += 1
            if v.status == 'unsat': chk.obligation(full, 'E-UNI', 'holds', v.seconds, True, {'claim': name, 'instance': inst.name, 'verdict': 'unsat (BDD miter)'})
            elif v.status == 'sat':
                assign, colour, state = UC.witness(sess, v.model)
                a1, a2 = UC.eval_bdd(r['ok'], assign), UC.eval_bdd(lib, assign); chk.native_replays += 1
                if a1 != a2:
                    chk.obligation(full, 'E-UNI', 'violated'); chk.violation(full, 'library-reachability', {'instance': inst.name, 'aeon': inst.aeon, 'colour': colour, 'state': state, 'tool': a1, 'library': a2}, f'{name}: differ at state {state} of the witness colour')
                else: chk.obligation(full + ' (does not reproduce)', 'E-UNI', 'inconclusive')
            else: chk.obligation(full, 'E-UNI', 'timeout', v.seconds)


def one_way(chk, thorough):
    """unfolding laws and semantics with concrete operands on the one-way instance W2 (and U2): shortcuts that test emptiness
    over all colours at once cannot hide behind a colour that keeps a variable moving"""
    unfold = {'EU': 'EX', 'EW': 'EX', 'AU': 'AX', 'AW': 'AX'}
    pairs = G.operand_pairs(('EU', 'AU', 'EW', 'AW'))
    if not thorough: pairs = [f for f in pairs if (f[1][0] != 'and') != (f[2][0] != 'and') or (f[1][0] != 'and' and f[2][0] != 'and')]
    for inst in UC.instances(['W2'] + (['U2'] if thorough else [])):
        for i in range(0, len(pairs), 12):
            chunk = pairs[i:i + 12]
            laws = [('iff', f, ('or', f[2], ('and', f[1], (unfold[f[0]], f)))) for f in chunk]
            sess = UC.Session(inst, 1, [{'phis': [f]} for f in chunk] + [{'phis': [l]} for l in laws])
            for j, f in enumerate(chunk):
                b = sess.first(j)
                name = f'C11/E-UNI {inst.name}: {S.show(f)} == explicit fixpoint semantics for every colour'
                if b is None: chk.obligation(name, 'E-UNI', 'violated'); chk.violation(name, 'law-error', {'answer': sess.runs[j], 'formula': S.show(f)}, 'evaluation failed'); continue
                UC.check_equiv(chk, 'C11', sess, f, b, name, 'one-way')
                r = sess.runs[len(chunk) + j]
                name = f'C11/E-UNI {inst.name}: unfolding law of {S.show(f)} holds in every state and colour'
                if 'ok' not in r: chk.obligation(name, 'E-UNI', 'violated'); chk.violation(name, 'law-error', {'answer': r, 'formula': S.show(laws[j])}, 'evaluation failed'); continue
                v = uni.decide([sess.dec.unit, z3.Not(sess.dec.bdd(r['ok']))]); chk.queries += 1
                if v.status == 'unsat': chk.obligation(name, 'E-UNI', 'holds', v.seconds, True, {'formula': S.show(laws[j]), 'instance': inst.name, 'verdict': 'unsat'})
                elif v.status == 'sat': UC.confirm(chk, 'C11', sess, laws[j], r['ok'], v.model, name, 'law')
                else: chk.obligation(name, 'E-UNI', 'timeout', v.seconds)

def beyond_bound(chk):
    """native only (no solver, outside the claim): the law formulas on the bundled 13-variable model evaluate to the unit set"""
    import os
    from .. import front
    path = os.path.join(front.REPO, 'test', 'model-010-13var-2in.aeon')
    if not os.path.exists(path): return
    aeon = open(path).read()
    w, p_ = 'v_Mesp1 & ~v_Isl1', 'v_Tbx5 | v_Fgf8'
    laws = ['(EF %w%) <=> (%w% | EX EF %w%)', '(EG %w%) <=> (%w% & EX EG %w%)', '(%w% AU %p%) <=> (%p% | (%w% & AX (%w% AU %p%)))', '(%w% EU %p%) <=> (%p% | (%w% & EX (%w% EU %p%)))',
            '(AF %w%) <=> ~EG ~%w%', '(AG %w%) <=> ~EF ~%w%', '(AX %w%) <=> ~EX ~%w%', '(EF (%w% & %p%)) => EF %w%', '(%w% EW %p%) <=> ((%w% EU %p%) | EG %w%)', '(%w% AW %p%) <=> ~(~%p% EU (~%w% & ~%p%))']
    job = {'op': 'mc', 'aeon': aeon, 'k': 0, 'context': {'w': {'t': 'mc', 'f': w}, 'p': {'t': 'mc', 'f': p_}}, 'runs': [{'entry': 'ext_dirty', 'formulas': [f]} for f in laws]}
    ans = front.native([job], timeout=1800)[0]
    if 'fatal' in ans or 'fatal_panic' in ans: chk.obligation('C11/native 13-variable model', 'native (beyond bound)', 'inconclusive'); return
    for f, r in zip(laws, ans['runs']):
        name = f'C11/native (beyond the bound, 13-variable bundled model, %w% := {w}, %p% := {p_}): {f} == true'
        if r.get('ok') == ans['unit']: chk.obligation(name, 'native (beyond bound)', 'holds', 0.0, False, {'claim': 'result BDD identical to the unit BDD'})
        else: chk.obligation(name, 'native (beyond bound)', 'violated'); chk.violation(name, 'law-13var', {'model': 'test/model-010-13var-2in.aeon', 'law': f, 'answer': {k: v for k, v in r.items() if k != 'ok'}}, f'law {f} does not evaluate to the unit set on the bundled model')
