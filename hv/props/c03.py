"""C03 - results never leave the graph's valid universe; closed results ignore auxiliary variables.  DESIGN.md 4 / C03."""
import z3
from .. import kernels as KL, unicheck as UC, evaltasks as ET, evalnode as EN
from ..oracle import sem as S, gen as G
from ..mirsym.interp import Ptr, Cell, mkref, PathCtx
from ..mirsym import biomodel
from . import c01, c02

def leaf_invariants(chk, n, k, c):
    """inductive invariant for the loop-free functions of layer 2, executed in fork mode: arguments inside the unit set
    of `graph` imply the same for the result (colour dimension with possibly invalid colours)"""
    lab = EN.EvalLab(chk, n, k, c)
    M, I = lab.M, lab.I
    ctx = lab.new_ctx(); I.ctx = ctx
    phi = z3.BitVec('PHI', M.W); psi = z3.BitVec('PSI', M.W)
    ctx.assume((phi & ~M.unit) == 0); ctx.assume((psi & ~M.unit) == 0)
    G_ = Ptr(Cell(biomodel.GraphObj(M)))
    R = lambda x: Ptr(Cell(x))
    calls = [('eval_prop', [G_, mkref('v0')]), ('eval_hctl_var', [G_, mkref('x')]), ('eval_neg', [G_, R(phi)]), ('eval_imp', [G_, R(phi), R(psi)]),
             ('eval_equiv', [G_, R(phi), R(psi)]), ('eval_xor', [G_, R(phi), R(psi)]), ('eval_bind', [G_, R(phi), mkref('x')]), ('eval_exists', [G_, R(phi), mkref('x')]),
             ('eval_jump', [G_, R(phi), mkref('x')]), ('eval_ex', [G_, R(phi), R(lab.M.steady())]), ('eval_ax', [G_, R(phi), R(lab.M.steady())]),
             ('create_comparator_var_state', [G_, mkref('x')]), ('project_out_hctl_var', [G_, R(phi), mkref('x')]), ('project_out_bn_vars', [G_, R(phi)]),
             ('compute_steady_states', [G_])]
    if k >= 2: calls += [('substitute_hctl_var', [G_, R(phi), mkref('x'), mkref('xx')]), ('create_comparator_two_vars', [G_, mkref('x'), mkref('xx')]), ('eval_hctl_var', [G_, mkref('xx')])]
    from ..mirsym.interp import Unsupported
    for name, args in calls:
        try: r = I.run(I.fn(name), args)
        except Unsupported as e:
            chk.obligation(f'C03/E-MIR invariant: {name} [unsupported: {str(e)[:100]}]', 'E-MIR/fork', 'inconclusive'); continue
        ok, m = ctx.valid((r & ~M.unit) == 0); chk.queries += 1
        tok, _ = ctx.valid((r & ~phi) == 0); chk.twin(not tok)
        full = f'C03/E-MIR invariant: {name} keeps results inside the unit set [n={n} k={k} c={c}]'
        if ok: chk.obligation(full, 'E-MIR/fork', 'holds', 0.0, True, {'function': name, 'claim': 'args <= unit  ==>  result <= unit', 'colour_bits': c, 'verdict': 'unsat'})
        else:
            # replay on the constrained native instance with a formula that reaches the function
            probe = {'eval_prop': ('prop', 'v0'), 'eval_hctl_var': ('bind', 'x', None, ('var', 'x'))}.get(name, ('EX', ('prop', 'v0')))
            sess = UC.Session(UC.instances(['C2'])[0], S.quant_depth(probe), [{'phis': [probe], 'entry': 'ext_dirty'}])
            chk.native_replays += 1
            if UC.check_inside_unit(chk, 'C03', sess, probe, sess.first(0), full, 'outside-unit'):
                chk.obligation(full + ' (does not reproduce natively through ' + S.show(probe) + ')', 'E-MIR/fork', 'inconclusive')
    chk.note_functions(I.executed); chk.models |= I.models_used
    # quantifier results do not depend on the quantified variable's copy
    for name in ('eval_bind', 'eval_exists'):
        r = I.run(I.fn(name), [G_, R(phi), mkref('x')])
        bits = [M.pos(i, 1) for i in range(n)]
        ok, m = ctx.valid(z3.And([M.flip(b, r) == r for b in bits])); chk.queries += 1
        chk.obligation(f'C03/E-MIR {name}: result independent of the copy of the quantified variable [n={n} k={k} c={c}]', 'E-MIR/fork', 'holds' if ok else 'inconclusive', 0.0, True,
                       {'function': name, 'claim': 'flip(b, result) == result for every bit b of copy x', 'verdict': 'unsat' if ok else 'sat'})

def run(chk):
    thorough = chk.tier == 'thorough'
    chk.bounds['families added after seeded changes'] = 'caller-supplied wild-card sets and domains that are NOT confined to the unit set (whole state predicates over all colours) on C2, M2 through ext / ext_dirty / ext_multi_dirty: inside-unit query and semantics on the valid colours'
    chk.bounds.update({'E-MIR invariants': 'layer-2 functions from MIR, n=2, k in {1,2}, one colour bit with a symbolic valid-colour mask (invalid colours exist)',
                       'E-MIR kernels': 'loop kernels in merge mode, (n,c) in {(2,1),(3,1)}: result == semantics intersected with the unit set',
                       'E-MIR eval_node': 'raw results of the string entry points from MIR, n=2, c=1: inside the unit set and independent of every auxiliary variable',
                       'E-UNI': 'constrained instances C2, M2 (regulation constraints exclude colours): result & not unit unsatisfiable, result == semantics (hence independent of auxiliary variables)'})
    from .. import conformance
    from ..run import guard as _guard
    _guard(chk, 'library-model conformance', conformance.run, chk, 2, 1); _guard(chk, 'library-model conformance', conformance.run, chk, 3, 0, samples=2)
    from ..run import guard
    guard(chk, 'C03/E-MIR leaf invariants k=1', leaf_invariants, chk, 2, 1, 1)
    guard(chk, 'C03/E-MIR leaf invariants k=2', leaf_invariants, chk, 2, 2, 1)
    c01.kernel_part(chk, [(2, 1)] + ([(3, 1)] if thorough else []))
    from . import c04
    scope = c04.scope_family()
    fs = c01.dispatch_formulas() + [f for f in c02.family() if not (S.labels(f)[0] | S.labels(f)[1]) & {'empty', 'full'}] + [f for f in scope if S.quant_depth(f) <= 2]
    tasks = []
    for fi, f in enumerate(fs):
        if not thorough and fi % 2 and f not in scope: continue       # quick: every second formula, but every member of the scope-stack family
        k = S.quant_depth(f)
        if (k <= 1 or f in scope) and (thorough or not c02.heavy(f) or f in scope): tasks.append({'n': 2, 'k': k, 'c': 1, 'entry': 'multi_ext_dirty', 'phis': [f], 'check_unit': True, 'timeout_ms': 600000 if thorough else 60000} if f not in scope else {'n': 2, 'k': k, 'c': 0, 'entry': 'multi_ext_dirty', 'phis': [f], 'check_unit': True, 'timeout_ms': 600000 if thorough else 60000})
    ET.run_tasks(chk, 'C03', tasks, signature='outside-unit')
    P0, P1 = ('prop', 'v0'), ('prop', 'v1')
    taut = [('true',), ('EF', ('true',)), ('AG', ('or', P0, ('not', P0))), ('iff', P0, P1), ('EF', ('iff', P0, P1)), ('or', ('iff', P0, P1), P0), ('exists', 'x', None, ('EX', ('or', ('var', 'x'), ('iff', P0, P1)))),
            ('xor', P0, P1), ('imp', P0, P1), ('forall', 'x', None, ('or', ('EF', ('var', 'x')), ('not', ('EF', ('var', 'x'))))), ('not', ('false',)), ('AX', ('true',)), ('EG', ('true',)), ('AW', ('true',), P0)]
    UC.run_family(chk, 'C03', [(['C2', 'M2'], taut)], entries=('ext',), check_unit=True)
    UC.run_family(chk, 'C03', [(['C2', 'M2'], taut)], entries=('ext_dirty',), check_unit=True)
    core = G.core_plain(['v0', 'v1']) + c02.family() + scope
    rnd = [G.random_formula(chk.rng, 3, ['v0', 'v1'], wild=('w',), doms=('d',)) for _ in range(100 if thorough else 15)]
    UC.run_family(chk, 'C03', [(['C2', 'M2'], core + rnd)], entries=('ext_dirty', 'ext'), check_unit=True)
    core3i = [f for f in G.core_plain(['v0', 'v2']) if S.depth(f) <= 3 and S.quant_depth(f) <= 1] + [('iff', ('prop', 'v0'), ('prop', 'v1')), ('true',), ('bind', 'x', 'd', ('EX', ('or', ('var', 'x'), ('wild', 'w'))))]
    UC.run_family(chk, 'C03', [(['I3'], core3i if thorough else core3i[::2])], entries=('ext_dirty', 'ext'), check_unit=True)
    small = G.sample_small(chk.rng, 2400 if thorough else 240, sizes=(3, 4, 5), un=('not', 'EX', 'AX', 'EF', 'AG'), bins=('and', 'or', 'iff', 'EU'))
    UC.sweep(chk, 'C03', small, which=('C2', 'M2') if thorough else ('C2',), check_unit=True, label='small formulas on constrained instances', signature='outside-unit')
    foreign_sets(chk, thorough)

def foreign_sets(chk, thorough):
    """wild-card sets and domains supplied by the caller that are NOT confined to the graph's unit set (computed on a model
    variant with relaxed regulations, built from the symbolic context, loaded from an older bundle): results stay inside
    the unit set and equal the semantics with the supplied sets cut down to the valid colours"""
    P0, P1 = ('prop', 'v0'), ('prop', 'v1'); X = ('var', 'x')
    R, Q = ('wild', 'r'), ('wild', 'rr')
    raw = {'r': {'t': 'rawexpr', 'e': 'v0'}, 'rr': {'t': 'rawexpr', 'e': '!v0 | v1'}}
    fs = [R, ('or', R, P1), ('and', R, Q), ('or', R, Q), ('xor', R, Q), ('EF', R), ('EX', R), ('EG', R), ('EU', R, Q), ('EW', Q, R), ('not', R), ('AX', R), ('imp', R, Q), ('iff', R, Q),
          ('exists', 'x', None, ('jump', 'x', ('EX', R))), ('bind', 'x', None, ('and', R, ('EF', X))), ('exists', 'x', 'r', ('jump', 'x', P1)), ('bind', 'x', 'rr', ('EX', X)),
          ('forall', 'x', 'r', ('or', ('EF', X), Q)), ('and', ('bind', 'x', 'r', ('EX', ('or', X, R))), R), ('or', ('exists', 'x', 'rr', ('and', X, R)), ('EF', R))]
    for inst in UC.instances(['C2', 'M2']):
        for e in ('ext_dirty', 'ext', 'ext_multi_dirty'):
            for i in range(0, len(fs), 11):
                chunk = fs[i:i + 11]
                sess = UC.Session(inst, 1, [{'phis': [f], 'entry': e} for f in chunk], extra_ctx=raw)
                for j, f in enumerate(chunk):
                    b = sess.first(j)
                    name = f'C03/E-UNI {inst.name} {e}: caller-supplied sets outside the unit set: {S.show(f)}'
                    if b is None:
                        chk.obligation(name, 'E-UNI', 'violated'); chk.violation(name, 'error-on-valid-input', {'instance': inst.name, 'formula': S.show(f), 'answer': sess.runs[j]}, f'{S.show(f)} answered {sess.runs[j]}'); continue
                    UC.check_inside_unit(chk, 'C03', sess, f, b, name + ' [inside the unit set]', 'outside-unit', rdec=sess.dec_for(j))
                    UC.check_equiv(chk, 'C03', sess, f, b, name + ' [== semantics on the valid colours]', 'semantics', rdec=sess.dec_for(j))

