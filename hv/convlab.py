"""C19 laboratory: the aeon -> bnet converter.  Its three functions are executed from the MIR of the binary on network
skeletons (model of the BooleanNetwork / FnUpdate API); the real binary is run on the same skeletons; in both cases the
solver decides that the family of output functions equals the family of instantiations of the input functions."""
import re, itertools, subprocess, time
import z3
from . import front
from .mirsym.interp import Interp, PathCtx, Ptr, Cell, Agg, RString, RStr, RVec, SeqIter, Slice, Panic, Unsupported, mkstr, show, deep_clone

FN_VARIANTS = ['Const', 'Var', 'Param', 'Not', 'Binary']
LIB_BINOP = ['And', 'Or', 'Xor', 'Iff', 'Imp']

class NetObj:
    def __init__(self, info):
        self.vars = list(info['vars']); self.regs = [sorted(r) for r in info['regulators']]
        self.params = [(p['name'], p['arity']) for p in info['parameters']]
        self.functions = [Cell(Agg('Option', 0, []) if f is None else Agg('Option', 1, [fn_from_json(f)])) for f in info['functions']]
        self.set_calls = []
        self.names = [Cell(mkstr(v)) for v in self.vars]

def fn_from_json(j):
    k = j['k']
    V = lambda name, fields: Agg('FnUpdate', FN_VARIANTS.index(name), fields)
    if k == 'const': return V('Const', [bool(j['v'])])
    if k == 'var': return V('Var', [j['id']])
    if k == 'param': return V('Param', [j['id'], RVec([fn_from_json(a) for a in j['args']])])
    if k == 'not': return V('Not', [Cell(fn_from_json(j['a']))])
    return V('Binary', [Agg('BinaryOp', LIB_BINOP.index(j['op']), []), Cell(fn_from_json(j['a'])), Cell(fn_from_json(j['b']))])

def fn_to_ast(v):
    """FnUpdate aggregate -> ('const', b) ('var', i) ('param', id, [args]) ('not', a) (op, a, b)"""
    while isinstance(v, (Ptr, Cell)): v = v.get() if isinstance(v, Ptr) else v.v
    k = FN_VARIANTS[v.variant]
    if k == 'Const': return ('const', bool(v.fields[0]))
    if k == 'Var': return ('var', v.fields[0])
    if k == 'Param': return ('param', v.fields[0], [fn_to_ast(a) for a in v.fields[1].items])
    if k == 'Not': return ('not', fn_to_ast(v.fields[0]))
    return (LIB_BINOP[v.fields[0].variant].lower(), fn_to_ast(v.fields[1]), fn_to_ast(v.fields[2]))

def ast_from_json(j):
    k = j['k']
    if k == 'const': return ('const', bool(j['v']))
    if k == 'var': return ('var', j['id'])
    if k == 'param': return ('param', j['id'], [ast_from_json(a) for a in j['args']])
    if k == 'not': return ('not', ast_from_json(j['a']))
    return (j['op'].lower(), ast_from_json(j['a']), ast_from_json(j['b']))

_I = None
def interp():
    global _I
    if _I is None:
        mirf, info = front.mir('bin')
        I = Interp(front.REPO, mirf); I.mir_info = info
        I.enums['FnUpdate'] = FN_VARIANTS; I.enums['BinaryOp'] = LIB_BINOP
        I.ext.append(_ext); I.enum_pref = ['FnUpdate']
        _I = I
    return _I

def _ext(I, fname, f, base, trait, meth, selfty, args):
    g = lambda x: x.get() if isinstance(x, Ptr) else x
    def gg(x):
        while isinstance(x, Ptr): x = x.get()
        return x
    name = f.split('::')[-1]
    if '_impl_boolean_network' in f:
        I.models_used.add('BooleanNetwork::' + name)
        net = gg(args[0])
        if name == 'regulators': return RVec(list(net.regs[args[1]]))
        if name == 'targets': return RVec([t for t in range(len(net.vars)) if args[1] in net.regs[t]])
        if name == 'get_update_function': return Ptr(net.functions[args[1]])
        if name == 'get_variable_name': return Ptr(net.names[args[1]])
        if name == 'num_vars': return len(net.vars)
        if name == 'variables': return SeqIter(list(range(len(net.vars))))
        if name == 'find_parameter':
            key = show(gg(args[1]).chars)
            for i, (n, a) in enumerate(net.params):
                if n == key: return Agg('Option', 1, [i])
            return Agg('Option', 0, [])
        if name == 'find_variable':
            key = show(gg(args[1]).chars)
            return Agg('Option', 1, [net.vars.index(key)]) if key in net.vars else Agg('Option', 0, [])
        if name == 'add_parameter':
            key = show(gg(args[1]).chars)
            if any(n == key for n, a in net.params) or key in net.vars: return Agg('Result', 1, [mkstr(f'Cannot add parameter. {key} already exists.')])
            net.params.append((key, args[2])); return Agg('Result', 0, [len(net.params) - 1])
        if name == 'get_parameter': return Ptr(Cell(('param', net, args[1])))
        if name == 'parameters': return SeqIter(list(range(len(net.params))))
        if name == 'set_update_function':
            var, val = args[1], args[2]
            if val.variant == 1:
                used = _vars_of(fn_to_ast(val.fields[0]))
                if not used <= set(net.regs[var]): return Agg('Result', 1, [mkstr('function arguments are not regulators')])
            net.functions[var].v = val; net.set_calls.append(var)
            return Agg('Result', 0, [()])
        return NotImplemented
    if '_impl_parameter' in f and name == 'get_name':
        p = gg(args[0]); return Ptr(Cell(mkstr(p[1].params[p[2]][0])))
    if '_impl_parameter' in f and name == 'get_arity':
        p = gg(args[0]); return p[1].params[p[2]][1]
    if '_impl_fn_update' in f:
        I.models_used.add('FnUpdate::' + name)
        V = lambda nm, fields: Agg('FnUpdate', FN_VARIANTS.index(nm), fields)
        B = lambda op, a, b: V('Binary', [Agg('BinaryOp', LIB_BINOP.index(op), []), Cell(a), Cell(b)])
        if name == 'mk_var': return V('Var', [args[0]])
        if name == 'mk_true': return V('Const', [True])
        if name == 'mk_false': return V('Const', [False])
        if name == 'mk_not' or name == 'negation': return V('Not', [Cell(args[0])])
        if name == 'mk_param': return V('Param', [args[0], RVec([deep_clone(x) for x in I.drain(gg(args[1]))])])
        if name in ('and', 'or', 'xor', 'iff', 'implies'):
            return B({'and': 'And', 'or': 'Or', 'xor': 'Xor', 'iff': 'Iff', 'implies': 'Imp'}[name], args[0], args[1])
        if name == 'mk_binary': return V('Binary', [args[0], Cell(args[1]), Cell(args[2])])
        x0 = gg(args[0]) if args else None
        if name.startswith('as_') and isinstance(x0, Agg) and x0.name == 'FnUpdate':
            vn = FN_VARIANTS[x0.variant]
            some = lambda v: Agg('Option', 1, [v]); none = Agg('Option', 0, [])
            dz = lambda c: c.v if isinstance(c, Cell) else c
            if name == 'as_const': return some(x0.fields[0]) if vn == 'Const' else none
            if name == 'as_var': return some(x0.fields[0]) if vn == 'Var' else none
            if name == 'as_not': return some(Ptr(x0.fields[0]) if isinstance(x0.fields[0], Cell) else Ptr(Cell(x0.fields[0]))) if vn == 'Not' else none
            if name == 'as_param': return some(Agg('tuple', None, [x0.fields[0], Ptr(Cell(Slice(x0.fields[1], 0, len(x0.fields[1].items))))])) if vn == 'Param' else none
            if name == 'as_binary':
                if vn != 'Binary': return none
                l, r = x0.fields[1], x0.fields[2]
                return some(Agg('tuple', None, [Ptr(l) if isinstance(l, Cell) else Ptr(Cell(l)), x0.fields[0], Ptr(r) if isinstance(r, Cell) else Ptr(Cell(r))]))
        if name == 'collect_arguments': return RVec(sorted(_vars_of(fn_to_ast(args[0]))))
        if name == 'collect_parameters': return RVec(sorted(_params_of(fn_to_ast(args[0]))))
        return NotImplemented
    return NotImplemented

def _vars_of(a):
    k = a[0]
    if k == 'var': return {a[1]}
    if k == 'const': return set()
    if k == 'param': return set().union(*[_vars_of(x) for x in a[2]]) if a[2] else set()
    if k == 'not': return _vars_of(a[1])
    return _vars_of(a[1]) | _vars_of(a[2])
def _params_of(a):
    k = a[0]
    if k in ('var', 'const'): return set()
    if k == 'param': return {a[1]}.union(*[_params_of(x) for x in a[2]])
    if k == 'not': return _params_of(a[1])
    return _params_of(a[1]) | _params_of(a[2])

def run_mir(info):
    """flatten_update_function for every variable, from MIR.  Returns (NetObj after, outcome)"""
    I = interp(); I.ctx = PathCtx(); I.steps = 0
    net = NetObj(info)
    try:
        for v in range(len(net.vars)):
            I.run(I.fn('flatten_update_function'), [Ptr(Cell(net)), v])
    except Panic as e:
        return net, ('panic', str(e))
    return net, ('ok', None)

# ------------------------------------------------------------------ semantics
def eval_ast(a, x, ptab, impl=None):
    """z3 Bool value of an update function AST under input valuation x (list of python bools / z3) and tables
    ptab[param id] = list of z3 Bools indexed by the argument valuation (bit j = argument j)"""
    k = a[0]
    if k == 'const': return z3.BoolVal(a[1])
    if k == 'var': return x[a[1]] if z3.is_expr(x[a[1]]) else z3.BoolVal(bool(x[a[1]]))
    if k == 'not': return z3.Not(eval_ast(a[1], x, ptab))
    if k == 'param':
        args = [eval_ast(b, x, ptab) for b in a[2]]
        tab = ptab[a[1]]
        def sel(i, idx):
            if i == len(args): return tab[idx]
            return z3.If(args[i], sel(i + 1, idx | (1 << i)), sel(i + 1, idx))
        return sel(0, 0)
    l, r = eval_ast(a[1], x, ptab), eval_ast(a[2], x, ptab)
    return {'and': z3.And(l, r), 'or': z3.Or(l, r), 'xor': z3.Xor(l, r), 'iff': l == r, 'imp': z3.Implies(l, r)}[k]

def family_equal(info, out_functions, out_params, targets, timeout_ms=120000):
    """decide  { outputs(., c) | c }  ==  { inputs_t | t }  for the tuple of all target variables.
    info: original network; out_functions[v]: AST over vars and zero-arity parameters (ids into out_params)"""
    n = len(info['vars'])
    # original unknowns: explicit parameters and implicit functions
    T = {}; tvars = []
    for i, p in enumerate(info['parameters']):
        T[i] = [z3.Bool(f't_{p["name"]}_{j}') for j in range(1 << p['arity'])]; tvars += T[i]
    orig = {}
    for v in targets:
        f = info['functions'][v]
        if f is not None: orig[v] = ast_from_json(f)
        else:
            regs = sorted(info['regulators'][v]); pid = ('implicit', v)
            T[pid] = [z3.Bool(f't_impl_{info["vars"][v]}_{j}') for j in range(1 << len(regs))]; tvars += T[pid]
            orig[v] = ('param', pid, [('var', r) for r in regs])
    C = {}; cvars = []
    for i, (name, ar) in enumerate(out_params):
        C[i] = [z3.Bool(f'c_{name}_{j}') for j in range(1 << ar)]; cvars += C[i]
    eqs = []
    for bits in itertools.product([False, True], repeat=n):
        x = list(bits)
        for v in targets: eqs.append(eval_ast(out_functions[v], x, C) == eval_ast(orig[v], x, T))
    body = z3.And(eqs) if eqs else z3.BoolVal(True)
    res = {}
    for name, outer, inner in (('every output instance is an instantiation of the input', cvars, tvars), ('every instantiation of the input is an output instance', tvars, cvars)):
        phi = z3.Exists(inner, body) if inner else body
        s = z3.Solver(); s.set('timeout', timeout_ms)
        s.add(z3.Not(phi))          # outer variables are free: a model is a counterexample valuation of them
        t = time.time(); r = s.check()
        res[name] = (str(r), {str(d): bool(z3.is_true(s.model()[d])) for d in s.model().decls()} if r == z3.sat else None, time.time() - t)
    return res

# ------------------------------------------------------------------ the real binary
def run_binary(aeon):
    exe = front.build_converter()
    p = subprocess.run([exe], input=aeon, stdout=subprocess.PIPE, stderr=subprocess.PIPE, text=True, timeout=60)
    if p.returncode != 0: return ('panic', p.stderr.strip().split('\n')[1] if len(p.stderr.strip().split('\n')) > 1 else p.stderr[:300])
    return ('ok', p.stdout)

def parse_bnet(text, varnames):
    """bnet text -> ({target name: AST over ('var', i) / ('param', k, [])}, constant names)"""
    consts = []
    def atom(name):
        if name in varnames: return ('var', varnames.index(name))
        if name in ('true', 'false'): return ('const', name == 'true')
        if name not in consts: consts.append(name)
        return ('param', consts.index(name), [])
    def parse_expr(s):
        toks = re.findall(r'[A-Za-z0-9_]+|[!&|()]', s); pos = [0]
        def peek(): return toks[pos[0]] if pos[0] < len(toks) else None
        def eat(): pos[0] += 1; return toks[pos[0] - 1]
        def p_or():
            l = p_and()
            while peek() == '|': eat(); l = ('or', l, p_and())
            return l
        def p_and():
            l = p_not()
            while peek() == '&': eat(); l = ('and', l, p_not())
            return l
        def p_not():
            if peek() == '!': eat(); return ('not', p_not())
            if peek() == '(':
                eat(); r = p_or(); assert eat() == ')'; return r
            return atom(eat())
        r = p_or(); assert pos[0] == len(toks), s
        return r
    out = {}
    for line in text.strip().split('\n'):
        if not line.strip() or line.startswith('targets') or line.startswith('#'): continue
        tgt, expr = line.split(',', 1)
        out[tgt.strip()] = parse_expr(expr)
    return out, consts
