#!/usr/bin/env python3
"""Regenerates MANIFEST.json from the table below (keeps it valid at all times)."""
import json, os
CLAIMED = {
 'C11': ('E-MIR merge-mode bounded model checking of the real kernels from MIR (z3) + E-UNI BDD miters (z3)',
         'Every fixed-point law, duality, monotonicity and reachability characterisation is a solver query over the MIR of the kernels in hctl_operators_eval.rs, for all transition systems with n<=3 variables, all unit sets (colour products) and all argument sets; unwinding assertions are discharged; the same laws are decided end to end on universal instances with the real libraries.',
         'bit-vector model of the biodivine set operations (DESIGN.md 3.4); n<=3; z3; the MIR emitted by the pinned nightly; benchmark-size models are outside the claim', '4/C11'),
 'C13': ('E-MIR merge-mode bounded model checking of eval_ew/eval_aw from MIR (z3) + E-UNI equivalence with explicit semantics (z3)',
         'eval_ew / eval_aw executed from MIR equal both definitions of weak until (E[U] or EG; greatest fixed point) for all transition systems with n<=3 variables; formulas containing EW/AW are decided end to end against the explicit semantics on universal instances.',
         'as C11', '4/C13'),
}
NA = {
 'C16': 'zip / file I/O around the library BDD serialiser: nothing left to encode once File/ZipWriter/ZipArchive are stubbed (DESIGN.md 5)',
 'C17': 'whole-program behaviour of a clap binary (process arguments, files, stdout, archives): outside symbolic reach (DESIGN.md 5)',
}
props = [json.loads(l)['id'] for l in open(os.path.join(os.path.dirname(__file__), 'properties.jsonl'))]
checks = []
for pid in props:
    if pid not in CLAIMED: continue
    tech, text, note, ref = CLAIMED[pid][:4]
    level = CLAIMED[pid][4] if len(CLAIMED[pid]) > 4 else 'model_checking'
    checks.append({'property_id': pid, 'quick_cmd': f'./check {pid} --tier quick', 'thorough_cmd': f'./check {pid} --tier thorough',
                   'evidence_file': f'/verif/evidence/{pid}.json', 'replay_cmd_template': f'./check {pid} --replay {{path}}', 'engine': 'hv',
                   'level_claimed': {'category': level, 'text': text, 'design_ref': 'DESIGN.md section ' + ref}, 'level_note': note, 'technique': tech})
na = [{'property_id': p, 'reason': NA.get(p, 'check under construction in this build round (engine exists, obligations not yet registered)')} for p in props if p not in CLAIMED]
m = {'version': 1, 'setup_cmd': './setup.sh',
     'hooks': {'guard': 'hctl_verif', 'enable': 'no source hooks are used: the MIR dump exposes private functions, everything else goes through the public API (hv-native has a path dependency on /repo)',
               'baseline_off_cmd': 'cd /repo && cargo test --workspace --no-fail-fast --offline', 'source_commits': [], 'add_only': True},
     'engines': [{'name': 'hv', 'path': '/verif/hv', 'serves_properties': sorted(CLAIMED), 'kind_free_text': 'MIR -> z3 symbolic executor (merge mode for kernels, fork mode for text/tree/orchestration code) + universal-instance equivalence (real pipeline, BDD exported to z3) + native replay'}],
     'checks': checks, 'not_applicable': na,
     'notes': 'exit 0 = held on everything explored; exit 1 + VIOLATION line = violation reproduced natively; exit 2 = inconclusive (unsupported construct, solver unknown, non-reproducing counterexample)'}
json.dump(m, open(os.path.join(os.path.dirname(__file__), 'MANIFEST.json'), 'w'), indent=1)
print('claimed', sorted(CLAIMED), 'not claimed', [x['property_id'] for x in na])
