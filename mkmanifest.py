#!/usr/bin/env python3
"""Regenerates MANIFEST.json from the table below (keeps it valid at all times)."""
import json, os
TB = 'bit-vector model of the documented contract of the biodivine libraries for E-MIR (DESIGN.md 3.4; E-UNI runs the real libraries); networks with <= 3 variables (orchestration: 2); z3; MIR of the pinned nightly; std containers by model (DESIGN.md 3.3)'
CLAIMED = {
 'C01': ('E-MIR: MIR -> z3 symbolic execution (kernels in merge mode with unwinding assertions; parser..eval_node..sanitize in fork mode) + E-UNI: universal-instance BDD equivalence by z3',
         'Operators: every kernel of hctl_operators_eval.rs equals its semantic clause for all transition systems (n<=3). Dispatch: the real string entry point executed from MIR gives, for every operator applied to arbitrary symbolic child sets, the semantic clause (n=2; n=3 thorough). End to end: formulas up to depth 4 on universal instances decided against an independent explicit-state semantics for every colour. Counterexamples are replayed natively.', TB, '4/C01'),
 'C02': ('E-MIR fork mode on the extended entry points from MIR (symbolic wild-card and domain sets, colour bit for per-colour emptiness) + E-UNI',
         'Quantifiers with domains, wild-cards, nested / repeated / empty-for-some-colours domains and the three README equivalences are solver obligations over the real code for all 2-variable transition systems and all context sets; the same families are decided on universal instances with the real libraries.', TB, '4/C02'),
 'C03': ('E-MIR inductive invariant per layer-2 function (colour dimension with invalid colours) + eval_node raw results + E-UNI on constrained instances',
         'args inside the unit set imply results inside it for every layer-2 function executed from MIR; raw results of the entry points are inside the unit set and independent of auxiliary variables; result & not unit is unsatisfiable on instances whose regulation constraints exclude colours.', TB, '4/C03'),
 'C04': ('E-MIR fork mode over batches with nondeterministic HashMap/HashSet/heap-tie iteration order + E-UNI BDD miters between batch / single / sharing-disabled / repeated / observed runs',
         'model_check_multiple_extended_formulae_dirty from MIR on batches of overlapping formulas: every position equals the semantics of its own formula under three global container-order policies (thorough: all permutations for pairs); natively: batch vs alone vs EvalContext without duplicates vs permuted list vs progress observer give identical BDDs.', TB + '; iteration orders: 3 policies (all permutations only for <=3 entries in the thorough tier)', '4/C04'),
 'C05': ('E-MIR fork mode: tokenizer + parser executed from MIR on strings of symbolic characters and on symbolic token sequences, in product with a reference grammar (z3 decides every branch and the final equalities)',
         'For every string up to the length bound (each character a 32-bit solver variable over ASCII + non-ASCII representatives) and every token sequence up to the bound, the real tokenizer and parser (plain and extended) accept exactly when the documented grammar does, produce the unique tree of the grammar, use every token exactly once, and plain/extended agree; counterexamples are replayed on the native parser.',
         'reference grammar reading of DESIGN.md 3.6; char classification exact on ASCII + representatives; std String/Vec/iterator models; strings <= 3 (4) characters, token sequences <= 3 (5)', '4/C05'),
 'C06': ('E-MIR fork mode: constructors, Display impls (format! interpreted through the repository code) and parser from MIR on all root operators x child templates and on symbolic identifiers',
         'parse(print(t)) == t, stored text == canonical rendering, stored height == 1 + max child height, for trees assembled with the public constructors (every operator, atom kind, domain option; symbolic identifiers) and for every tree produced by the parser and by preprocessing on the explored paths.',
         'identifiers are non-reserved names of <= 3 symbolic characters; trees of height <= 3 (4)', '4/C06'),
 'C07': ('E-MIR fork mode: validate_props_and_rename_vars from MIR on tree skeletons with symbolic variable names (solver decides every equality pattern) against a scope-checker + depth-naming oracle',
         'accept/reject exactly as the binding rules say; accepted result equals the depth-named alpha-equivalent tree; number of names == nesting depth; idempotent; natively replayed.',
         '23 skeletons, names of 1-2 symbolic characters', '4/C07'),
 'C08': ('E-MIR fork mode: parse_and_minimize_extended_formula from MIR on rewritten texts with symbolic whitespace characters / symbolic variable names / enumerated parenthesis, spelling and constant choices',
         'the preprocessed tree of every rewritten text is identical to that of the base text (so evaluation cannot differ); concrete variants are additionally compared natively on result BDDs.',
         '6 base formulas; <= 2 (3) inserted symbolic whitespace characters; names of <= 2 (3) symbolic characters', '4/C08'),
 'C09': ('E-MIR fork mode: canonize_subform / get_canonical_and_renaming / mark_duplicates_canonized_multiple from MIR with symbolic labels, all binding patterns and nondeterministic container orders, against an independent canoniser and an alpha-equivalence decision',
         'same canonical form <=> equal up to renaming (all pairs of sub-formulas), renaming maps free variables injectively to their canonical names, idempotence, and every reported duplicate with counter m has >= m+1 occurrences with identical free-variable domains, under three iteration-order policies; replayed natively through a feature-gated re-export.',
         '13 preprocessed formula shapes x all binding choices; lists of <= 2 trees', '4/C09'),
 'C10': ('E-MIR fork mode with wild-cards bound to solver terms produced by the real evaluation of the replaced sub-formula + E-UNI miters',
         'C[%p%] with %p% := raw result of psi equals C[psi] (1-2 simultaneous replacements) for all 2-variable transition systems; plain formulas through extended entry points with empty context equal the plain entry points; the same natively on universal instances.', TB + '; benchmark-size networks outside the claim', '4/C10'),
 'C11': ('E-MIR merge-mode bounded model checking of the real kernels from MIR (z3) + E-UNI BDD miters (z3)',
         'Every fixed-point law, duality, monotonicity and reachability characterisation is a solver query over the MIR of the kernels in hctl_operators_eval.rs, for all transition systems with n<=3 variables, all unit sets (colour products) and all argument sets; unwinding assertions are discharged; the same laws are decided end to end on universal instances with the real libraries (incl. reach_backward / trap_forward / Reachability::reach_bwd).', TB + '; benchmark-size models are outside the claim', '4/C11'),
 'C12': ('E-MIR fork mode: pattern recognisers on all tree skeletons with symbolic names; eval_node on patterns / near-misses in every context (attractor search by contract) + E-UNI with the real ITGR/Xie-Beerel search',
         'is_attractor_pattern / is_fixed_point_pattern are true iff the tree is exactly the pattern (all skeletons of the shape, symbolic names); patterns at top level, under operators, under quantifiers, inside restricted scopes, in batches and near-misses evaluate to the semantics of the formula as written.', TB, '4/C12'),
 'C13': ('E-MIR merge-mode bounded model checking of eval_ew/eval_aw from MIR (z3) + E-UNI equivalence with explicit semantics (z3)',
         'eval_ew / eval_aw executed from MIR equal both definitions of weak until (E[U] or EG; greatest fixed point) for all transition systems with n<=3 variables; formulas containing EW/AW are decided end to end against the explicit semantics on universal instances.', TB, '4/C13'),
 'C14': ('E-MIR fork mode with panics as path outcomes: model_check_multiple_extended_formulae from MIR on symbolic strings / templates with symbolic edits / label subsets / k, against an independent classifier; native sweep of mutated strings',
         'no explored path ends in a panic, and Ok/Err coincides with the classifier (syntax, binding rules, proposition names, context labels, nesting depth vs spare variable sets); evaluation of accepted inputs continues on the symbolic 2-variable model so that the unwrap/unreachable sites of eval_node and sanitizing are inside the explored paths.',
         TB + '; strings <= 2 (3) symbolic characters; one symbolic character per template', '4/C14'),
 'C15': ('E-UNI: z3 miter sanitised vs raw vs semantics for k = depth..depth+2 + E-MIR: sanitizing entry points from MIR with the transfer_from contract',
         'sanitised BDD == raw BDD == semantics for every colour, identical for every number of spare variable sets, in the canonical context of SymbolicAsyncGraph::new; sanitize_colored_vertices executed from MIR never reaches its unwrap failure (results independent of auxiliary variables).', TB, '4/C15'),
 'C18': ('E-MIR: model_check_formula_unsafe_ex and eval_node with a free symbolic steady-state set from MIR + E-UNI miters',
         'on the fragment the variant equals the standard semantics and eval_node does not depend on the steady-state argument at all (two free symbols); on networks without steady states every formula agrees; natively: BDD miter unsafe_ex vs standard, restricted to steady-state-free colours outside the fragment.', TB, '4/C18'),
 'C19': ('translation validation: converter functions executed from the MIR of the binary (model of the BooleanNetwork API) and the real binary run on the same skeletons; z3 decides {outputs(.,c)} == {instantiations} with all truth tables, constants and inputs as solver variables (two quantified obligations)',
         'for every skeleton the tuple of output update functions ranges over exactly the instantiations of the input functions; explicit functions are equivalent; targets are exactly the variables with a regulator or a function.',
         'skeletons with <= 3 (4) variables, arity <= 3; bnet expression parser of the harness; model of BooleanNetwork/FnUpdate for the MIR layer', '4/C19', 'translation_validation'),
 'C20': ('E-UNI: result(state, colour) == explicit semantics on the transition system of that colour, for all colours (z3) + native runs on solver-enumerated instantiated networks + E-MIR colour non-interference',
         'the slice of the parametrised answer at every colour equals the semantics of that colour\'s network; slices of solver-enumerated distinct colours equal model_check_formula on the instantiated fully specified networks; kernels are non-interfering between colours.', TB + '; benchmark models outside', '4/C20'),
}
NA = {
 'C16': 'zip / file I/O around the library BDD serialiser: nothing left to encode once File/ZipWriter/ZipArchive are stubbed (DESIGN.md 5)',
 'C17': 'whole-program behaviour of a clap binary (process arguments, files, stdout, archives): outside symbolic reach (DESIGN.md 5)',
}
props = [json.loads(l)['id'] for l in open(os.path.join(os.path.dirname(__file__), 'properties.jsonl'))]
checks = []
for pid in props:
    if pid not in CLAIMED: continue
    tech, text, note, ref = CLAIMED[pid][:4]
    level = CLAIMED[pid][4] if len(CLAIMED[pid]) > 4 else 'model_checking'
    checks.append({'property_id': pid, 'quick_cmd': f'./check {pid} --tier quick', 'thorough_cmd': f'./check {pid} --tier thorough',
                   'evidence_file': f'/verif/evidence/{pid}.json', 'replay_cmd_template': f'./check {pid} --replay {{path}}', 'engine': 'hv',
                   'level_claimed': {'category': level, 'text': text, 'design_ref': 'DESIGN.md section ' + ref}, 'level_note': note, 'technique': tech})
na = [{'property_id': p, 'reason': NA.get(p, 'check under construction in this build round (engine exists, obligations not yet registered)')} for p in props if p not in CLAIMED]
m = {'version': 1, 'setup_cmd': './setup.sh',
     'hooks': {'guard': 'hctl_verif', 'enable': 'cargo feature hctl_verif (off by default): hv-native depends on /repo with features = ["hctl_verif"]; the only hook is a re-export of the private canonization functions (src/evaluation/mod.rs) used for native replay in C09; every other check uses the public API, and the MIR dump needs no hook',
               'baseline_off_cmd': 'cd /repo && cargo test --workspace --no-fail-fast --offline', 'source_commits': ['d415a4a'], 'add_only': True},
     'engines': [{'name': 'hv', 'path': '/verif/hv', 'serves_properties': sorted(CLAIMED), 'kind_free_text': 'MIR -> z3 symbolic executor (merge mode for kernels, fork mode for text/tree/orchestration code) + universal-instance equivalence (real pipeline, BDD exported to z3) + native replay of every counterexample; bounded native enumeration (hv/fallback.py) only takes the place of text-level parts that the executor reports as unexplored on a given tree'}],
     'checks': checks, 'not_applicable': na,
     'notes': 'exit 0 = held on everything explored; exit 1 + VIOLATION line = violation reproduced natively; exit 2 = inconclusive (unsupported construct, solver unknown, non-reproducing counterexample)'}
json.dump(m, open(os.path.join(os.path.dirname(__file__), 'MANIFEST.json'), 'w'), indent=1)
print('claimed', sorted(CLAIMED), 'not claimed', [x['property_id'] for x in na])
