#!/bin/sh
# Build everything the checks need, offline, from files on disk only.
set -e
cd "$(dirname "$0")"
export CARGO_NET_OFFLINE=true
mkdir -p .cache evidence replays
python3-vt -c "
import sys; sys.path.insert(0, '.')
from hv import front
front.build_native(); front.build_converter()
print(front.mir('lib')); print(front.mir('bin'))
"
